#!/venv/bin/python
"""Final pass over all seeded candidates: confirm, evaluate with the current checks, keep."""
import json, os, subprocess, sys

here = os.path.dirname(os.path.abspath(__file__))
seeds = json.load(open(os.path.join(here, "seeds.json")))
only = set(sys.argv[1:])
for s in seeds:
    name = f"{s['prop']}-{s['k']}"
    if only and name not in only and s["prop"] not in only:
        continue
    src = f"/tmp/wt/{s['prop']}/_seed"
    if not os.path.exists(src):
        src = f"/verif/seeded/{name}"
    subprocess.run(["/venv/bin/python", os.path.join(here, "seed.py"), "--src", src, "--k", s["k"], "--prop", s["prop"],
                    "--checks", s["checks"], "--keep", "--needs", s["needs"]])
