#!/venv/bin/python
"""Wave 3 of seeded candidates (tag c): confirm, evaluate, keep."""
import json, os, subprocess, sys

here = os.path.dirname(os.path.abspath(__file__))
seeds = json.load(open(os.path.join(here, "seeds3.json")))
only = set(a for a in sys.argv[1:] if not a.startswith("--"))
keep = "--nokeep" not in sys.argv
for s in seeds:
    name = f"{s['prop']}-c{s['k']}"
    if only and name not in only and s["prop"] not in only:
        continue
    src = f"/tmp/wt3/{s['prop']}/_seed"
    k = s["k"]
    if not os.path.exists(os.path.join(src, f"patch{k}.diff")):
        src = f"/verif/seeded/{name}"
    cmd = ["/venv/bin/python", os.path.join(here, "seed.py"), "--src", src, "--k", k, "--prop", s["prop"],
           "--checks", s["checks"], "--tag", "c", "--needs", s["needs"]]
    if keep:
        cmd.append("--keep")
    subprocess.run(cmd)
