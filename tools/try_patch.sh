#!/bin/bash
# usage: tools/try_patch.sh <patch file> <check> [<check> ...]   -- quick tier against a scratch worktree with the patch
set -u
patch="$1"; shift
wt=/tmp/trywt/$$; mkdir -p /tmp/trywt
git -C /repo worktree add -q --detach "$wt" HEAD || exit 2
git -C "$wt" apply "$patch" || { git -C /repo worktree remove --force "$wt"; exit 2; }
for c in "$@"; do
  VERIF_EVIDENCE_DIR=/tmp/verif_scratch/evidence VERIF_REPLAY_DIR=/tmp/verif_scratch/replays CSS_REPO="$wt" /verif/check "$c" --tier "${TIER:-quick}" --no-confirm 2>&1 | grep -v "^WARNING\|ResourceWarning" | grep "^  \|tier=" | cut -c1-400 | head -${LINES_MAX:-4}
done
git -C /repo worktree remove --force "$wt"
