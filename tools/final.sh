#!/bin/bash
# Final pass: every quick check against /repo itself (evidence written to /verif/evidence), then the manifest.
cd /verif
rc=0
for c in C01 C02 C03 C04 C05 C06 C07 C08 C09 C10 C11 C12 C13 C14 C15 C16 C17 C18 C19 C20; do
  s=$(date +%s)
  ./check $c --tier quick > /tmp/final_$c.out 2>&1; r=$?
  e=$(date +%s)
  echo "$c exit=$r wall=$((e-s))s $(grep 'tier=quick' /tmp/final_$c.out | tail -1 | cut -c1-200)"
  [ $r -ne 0 ] && rc=1
done
/venv/bin/python tools/manifest.py
exit $rc
