#!/bin/bash
# usage: tools/sweep.sh <tier> <log> [checks...]   -- runs the checks one after the other, records wall time and exit code
tier="$1"; log="$2"; shift 2
checks="${@:-C13 C19 C20 C12 C14 C15 C16 C06 C11 C18 C03 C17 C01 C02 C04 C05 C07 C08 C09 C10}"
mkdir -p /tmp/verif_sweep/evidence /tmp/verif_sweep/replays
for c in $checks; do
  s=$(date +%s)
  VERIF_EVIDENCE_DIR=/tmp/verif_sweep/evidence VERIF_REPLAY_DIR=/tmp/verif_sweep/replays timeout ${SWEEP_TIMEOUT:-3000} /verif/check $c --tier $tier > /tmp/verif_sweep/$c.$tier.out 2>&1
  rc=$?
  e=$(date +%s)
  echo "$c tier=$tier exit=$rc wall=$((e-s))s :: $(grep "tier=$tier" /tmp/verif_sweep/$c.$tier.out | tail -1 | cut -c1-260)" >> "$log"
done
echo DONE >> "$log"
