#!/venv/bin/python
"""Markdown table of the seeded changes kept under /verif/seeded (from their meta.json)."""
import glob, json, os

rows = []
for d in sorted(glob.glob("/verif/seeded/*/meta.json")):
    m = json.load(open(d))
    verdicts = ", ".join(f"{c}: {v['verdict']}" for c, v in m.get("checks", {}).items())
    first = ""
    for c, v in m.get("checks", {}).items():
        if v["verdict"] == "caught" and v.get("first_report"):
            first = v["first_report"][0].split(" :: ")[0][:90]
            break
    rows.append((m["candidate"], m.get("needs_to_manifest", "")[:150], verdicts, first))
print("| seeded change | needs, in order to manifest | quick-tier verdicts | first report |")
print("|---|---|---|---|")
for r in rows:
    print("| " + " | ".join(x.replace("|", "/") for x in r) + " |")
print()
caught = sum(1 for r in rows if "caught" in r[2])
print(f"{len(rows)} seeded changes kept, {caught} caught by at least one quick-tier check.")
