#!/venv/bin/python
"""Confirm and evaluate a seeded change written by a sub-agent.

usage: tools/seed.py --src /tmp/wt/C05/_seed --k 1 --prop C05 --checks C05,C06 [--keep]
Steps (all in a fresh scratch worktree of /repo, never in /repo itself):
  1. demo without the patch must exit 0
  2. apply the patch; the repository's 45 tests must pass
  3. demo with the patch must exit non-zero
  4. run the named checks (quick tier) against the patched tree
With --keep the candidate is stored under /verif/seeded/<prop>-<k>/ (patch.diff, demo.py,
notes.md, meta.json with what was run and what each check said).
"""
import argparse, json, os, shutil, subprocess, sys, time

sys.path.insert(0, os.path.dirname(__file__))
from mut import make_worktree, drop_worktree, sh  # noqa: E402


def main():
    ap = argparse.ArgumentParser()
    ap.add_argument("--src", required=True)
    ap.add_argument("--k", default="1")
    ap.add_argument("--prop", required=True)
    ap.add_argument("--checks", default="")
    ap.add_argument("--tier", default="quick")
    ap.add_argument("--keep", action="store_true")
    ap.add_argument("--needs", default="")
    ap.add_argument("--tag", default="", help="wave tag, e.g. b -> candidate name C06-b1")
    args = ap.parse_args()
    patch = os.path.join(args.src, f"patch{args.k}.diff")
    demo = os.path.join(args.src, f"demo{args.k}.py")
    name = f"{args.prop}-{args.tag}{args.k}"
    kept_src = not os.path.exists(patch)  # re-evaluation of a candidate already kept under seeded/
    if kept_src:
        patch, demo = os.path.join(args.src, "patch.diff"), os.path.join(args.src, "demo.py")
    wt = make_worktree("seed-" + name)
    meta = {"property": args.prop, "candidate": name, "ran": []}
    try:
        os.makedirs(os.path.join(wt, "_seed"), exist_ok=True)
        for f in os.listdir(args.src):  # demos may come with helper modules
            if f.endswith(".py"):
                shutil.copy(os.path.join(args.src, f), os.path.join(wt, "_seed", f))
        if kept_src:
            shutil.copy(demo, os.path.join(wt, "_seed", f"demo{args.k}.py"))
        r0 = sh(f"cd {wt} && timeout 900 /venv/bin/python _seed/demo{args.k}.py", timeout=1000)
        meta["ran"].append({"cmd": "demo without the change", "exit": r0.returncode})
        a = sh(f"git -C {wt} apply {patch}")
        if a.returncode != 0:
            print("patch does not apply:", a.stderr[:300])
            return
        t = sh(f"cd {wt} && /venv/bin/python -m pytest -q -p no:cacheprovider -n 8 --timeout=900 2>&1 | tail -2")
        tests_ok = " passed" in t.stdout and "failed" not in t.stdout and "error" not in t.stdout.lower()
        meta["ran"].append({"cmd": "repository tests with the change", "result": t.stdout.strip().splitlines()[-1] if t.stdout.strip() else "?"})
        r1 = sh(f"cd {wt} && timeout 900 /venv/bin/python _seed/demo{args.k}.py", timeout=1000)
        meta["ran"].append({"cmd": "demo with the change", "exit": r1.returncode, "tail": (r1.stdout + r1.stderr)[-300:]})
        confirmed = r0.returncode == 0 and r1.returncode != 0 and tests_ok
        meta["confirmed"] = confirmed
        print(f"{name}: demo without={r0.returncode} with={r1.returncode} tests={'green' if tests_ok else 'RED'} -> {'CONFIRMED' if confirmed else 'REJECTED'}", flush=True)
        meta["checks"] = {}
        for c in filter(None, args.checks.split(",")):
            t0 = time.time()
            r = sh(f"cd /verif && VERIF_EVIDENCE_DIR=/tmp/verif_scratch/evidence VERIF_REPLAY_DIR=/tmp/verif_scratch/replays CSS_REPO={wt} ./check {c} --tier {args.tier} --no-confirm", timeout=7200)
            groups = [l.strip()[:300] for l in r.stdout.splitlines() if l.startswith("  ")]
            verdict = "caught" if r.returncode == 1 else "silent" if r.returncode == 0 else f"error{r.returncode}"
            meta["checks"][c] = {"verdict": verdict, "tier": args.tier, "seconds": round(time.time() - t0, 1), "first_report": groups[:2]}
            print(f"   {c}: {verdict} ({meta['checks'][c]['seconds']}s) {groups[0][:200] if groups else ''}", flush=True)
            if r.returncode == 2:
                print(r.stdout[-600:])
    finally:
        drop_worktree(wt)
    if args.keep and meta.get("confirmed"):
        dst = os.path.join("/verif/seeded", name)
        os.makedirs(dst, exist_ok=True)
        if not kept_src:
            shutil.copy(patch, os.path.join(dst, "patch.diff"))
            shutil.copy(demo, os.path.join(dst, "demo.py"))
            for f in os.listdir(args.src):
                if f.endswith(".py") and not f.startswith("demo"):
                    shutil.copy(os.path.join(args.src, f), os.path.join(dst, f))
            notes = os.path.join(args.src, "notes.md")
            if os.path.exists(notes):
                shutil.copy(notes, os.path.join(dst, "notes.md"))
        meta["needs_to_manifest"] = args.needs
        meta["demo_usage"] = f"from a checkout with patch.diff applied: mkdir -p _seed && cp demo.py _seed/demo{args.k}.py && /venv/bin/python _seed/demo{args.k}.py"
        json.dump(meta, open(os.path.join(dst, "meta.json"), "w"), indent=1)
        print("   kept in", dst)


if __name__ == "__main__":
    main()
