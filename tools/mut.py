#!/venv/bin/python
"""Mutation driver: apply one catalogued edit (or a patch file) to a SCRATCH worktree of
/repo, run the repository's tests there and the named checks against it (CSS_REPO), then
remove the worktree.  /repo itself is never modified.

usage: tools/mut.py [--tests] [--tier quick] [--only name,...] [--checks C03,C05] [--patch file --name x]
Catalogue: tools/mutants.py (list of dicts name,file,old,new,checks,note).
"""
import argparse, json, os, shutil, subprocess, sys, time

sys.path.insert(0, os.path.dirname(__file__))
REPO = "/repo"
SCRATCH = "/tmp/mutwt"


def sh(cmd, **kw):
    return subprocess.run(cmd, shell=True, capture_output=True, text=True, **kw)


def make_worktree(name):
    os.makedirs(SCRATCH, exist_ok=True)
    wt = os.path.join(SCRATCH, name)
    sh(f"git -C {REPO} worktree remove --force {wt}")
    shutil.rmtree(wt, ignore_errors=True)
    r = sh(f"git -C {REPO} worktree add --detach {wt} HEAD")
    assert r.returncode == 0, r.stderr
    return wt


def drop_worktree(wt):
    sh(f"git -C {REPO} worktree remove --force {wt}")
    shutil.rmtree(wt, ignore_errors=True)
    sh(f"git -C {REPO} worktree prune")


def evaluate(name, wt, checks, tier, tests, evidence_dir=None):
    res = {"name": name, "checks": {}}
    if tests:
        t = sh(f"cd {wt} && /venv/bin/python -m pytest -q -x -p no:cacheprovider -n 8 --timeout=900 2>&1 | tail -3")
        res["tests"] = "green" if " passed" in t.stdout and "failed" not in t.stdout and "error" not in t.stdout.lower() else "RED"
    for c in checks:
        t0 = time.time()
        r = sh(f"cd /verif && VERIF_EVIDENCE_DIR=/tmp/verif_scratch/evidence VERIF_REPLAY_DIR=/tmp/verif_scratch/replays CSS_REPO={wt} ./check {c} --tier {tier} --no-confirm", timeout=7200)
        groups = [l.strip() for l in r.stdout.splitlines() if l.startswith("  ")]
        res["checks"][c] = {"rc": r.returncode, "s": round(time.time() - t0, 1), "groups": groups[:3]}
    line = f"{name:45s} tests={res.get('tests','-'):5s} " + " ".join(
        f"{c}:{'CAUGHT' if v['rc']==1 else ('silent' if v['rc']==0 else 'ERR'+str(v['rc']))}({v['s']}s)" for c, v in res["checks"].items())
    print(line, flush=True)
    for c, v in res["checks"].items():
        for g in v["groups"][:1]:
            print("      ", g[:220], flush=True)
    return res


def main():
    ap = argparse.ArgumentParser()
    ap.add_argument("--tests", action="store_true", help="also run the repo test suite on the mutant")
    ap.add_argument("--tier", default="quick")
    ap.add_argument("--only", default="")
    ap.add_argument("--checks", default="")
    ap.add_argument("--out", default="")
    ap.add_argument("--patch", default="")
    ap.add_argument("--name", default="patch")
    args = ap.parse_args()
    results = []
    if args.patch:
        wt = make_worktree(args.name)
        try:
            r = sh(f"git -C {wt} apply {os.path.abspath(args.patch)}")
            if r.returncode != 0:
                print("!! patch does not apply:", r.stderr[:300])
                return
            results.append(evaluate(args.name, wt, args.checks.split(","), args.tier, args.tests))
        finally:
            drop_worktree(wt)
    else:
        from mutants import MUTANTS

        only = set(filter(None, args.only.split(",")))
        for m in MUTANTS:
            if only and m["name"] not in only:
                continue
            wt = make_worktree(m["name"])
            try:
                path = os.path.join(wt, m["file"])
                src = open(path).read()
                if src.count(m["old"]) != 1:
                    print(f"!! {m['name']}: old text occurs {src.count(m['old'])} times", flush=True)
                    continue
                open(path, "w").write(src.replace(m["old"], m["new"]))
                checks = args.checks.split(",") if args.checks else m.get("checks", [])
                results.append(evaluate(m["name"], wt, checks, args.tier, args.tests))
            finally:
                drop_worktree(wt)
    if args.out:
        json.dump(results, open(args.out, "w"), indent=1)
    # evidence files were rewritten by runs against a scratch tree: they do not describe /repo
    print("NOTE: evidence/*.json of the checks run above now describe a scratch tree; re-run the checks on /repo before committing evidence")


if __name__ == "__main__":
    main()
