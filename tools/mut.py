#!/venv/bin/python
"""Mutation driver: apply one catalogued edit to /repo, run checks, revert.

usage: tools/mut.py [--tests] [--tier quick] [--only name,...] [--checks C03,C05]
Catalogue: tools/mutants.py (list of dicts name,file,old,new,checks,note).
Never leaves /repo modified (git checkout -- . in a finally block).
"""
import argparse, json, os, subprocess, sys, time

sys.path.insert(0, os.path.dirname(__file__))
REPO = "/repo"


def sh(cmd, **kw):
    return subprocess.run(cmd, shell=True, capture_output=True, text=True, **kw)


def main():
    ap = argparse.ArgumentParser()
    ap.add_argument("--tests", action="store_true", help="also run the repo test suite on the mutant")
    ap.add_argument("--tier", default="quick")
    ap.add_argument("--only", default="")
    ap.add_argument("--checks", default="")
    ap.add_argument("--out", default="")
    args = ap.parse_args()
    from mutants import MUTANTS

    only = set(filter(None, args.only.split(",")))
    assert sh("git -C /repo status --porcelain").stdout.strip() == "", "/repo not clean"
    results = []
    for m in MUTANTS:
        if only and m["name"] not in only:
            continue
        path = os.path.join(REPO, m["file"])
        src = open(path).read()
        if src.count(m["old"]) != 1:
            print(f"!! {m['name']}: old text occurs {src.count(m['old'])} times", flush=True)
            continue
        checks = args.checks.split(",") if args.checks else m.get("checks", [])
        res = {"name": m["name"], "checks": {}}
        try:
            open(path, "w").write(src.replace(m["old"], m["new"]))
            if args.tests:
                t = sh("cd /repo && /venv/bin/python -m pytest -q -x -p no:cacheprovider -n 8 --timeout=900 2>&1 | tail -3")
                res["tests"] = "green" if " passed" in t.stdout and "failed" not in t.stdout and "error" not in t.stdout.lower() else "RED"
            for c in checks:
                t0 = time.time()
                r = sh(f"cd /verif && ./check {c} --tier {args.tier} --no-confirm", timeout=3600)
                groups = [l.strip() for l in r.stdout.splitlines() if l.startswith("  ")]
                res["checks"][c] = {"rc": r.returncode, "s": round(time.time() - t0, 1), "groups": groups[:3]}
        finally:
            sh("git -C /repo checkout -- .")
        line = f"{m['name']:45s} tests={res.get('tests','-'):5s} " + " ".join(
            f"{c}:{'CAUGHT' if v['rc']==1 else ('silent' if v['rc']==0 else 'ERR'+str(v['rc']))}({v['s']}s)" for c, v in res["checks"].items())
        print(line, flush=True)
        for c, v in res["checks"].items():
            for g in v["groups"][:1]:
                print("      ", g[:200], flush=True)
        results.append(res)
    if args.out:
        json.dump(results, open(args.out, "w"), indent=1)
    assert sh("git -C /repo status --porcelain").stdout.strip() == ""


if __name__ == "__main__":
    main()
