#!/venv/bin/python
"""Regenerates /verif/MANIFEST.json from the table below (claimed checks) and
properties.jsonl (everything else goes to not_applicable with its reason)."""
import importlib, json, os, sys

VERIF = os.path.dirname(os.path.dirname(os.path.abspath(__file__)))
sys.path.insert(0, VERIF)

CLAIMS = {
    "C01": dict(category="model_checking", design="4/C01",
        technique="stateless deviation-bounded exploration of clock/RNG decisions of the real auto_search + explicit-state search over searcher states (all slicings); oracle: plain enumeration",
        text="Every configuration of a stated lattice (W start classes x statistics x packs x 4 rule databases x options, and G grammars) is run through the real auto_search under an explorer-owned clock and RNG: all schedules within the deviation bound from both default slicings, and all slicings by explicit-state search on the base configurations. Every distinct returned specification is compared with plain enumeration for all sizes <= N and all parameter tuples. Exhaustive within the bounds; says nothing beyond them.",
        note="trusted: domain brute force and strategies (domain gate in C04/C09), virtual clock site classification (conformance run in C17), bounds in evidence"),
    "C02": dict(category="model_checking", design="4/C02",
        technique="same exhaustive executions as C01; oracles: closure/reachability, re-application of strategies, independent least-fixed-point productivity",
        text="Same executions as C01. For every distinct returned specification: closure and reachability, no two rules for one class in the raw rule list, every rule re-derived by a fresh decomposition_function call of a pack strategy (through reverse/equivalence/path wrappers), productivity by an independent least-fixed-point computation on (parent, children, shifts).",
        note="trusted: domain emptiness predicate, LFP oracle (self-tested in C03)"),
    "C03": dict(category="model_checking", design="4/C03",
        technique="explicit-state search over insertion histories of the real TableMethod (all sequences with repetition to a depth, all permutations of fixed universes); oracle: independent least fixed point after every insertion",
        text="All sequences with repetition of rule keys from small alphabets up to a stated depth and all permutations of the test-suite universes are replayed on fresh TableMethod objects; after every insertion function/is_pumping/pumping_subuniverse are compared with an independent least-fixed-point computation and with the previous step (monotone). The bucket of every key is varied with the key (the function must not depend on it).",
        note="trusted: mc/oracles.py lfp_terms (gap lemma in DESIGN 3.3; self-tested against the repository's hand-typed expectations and uncapped Kleene iteration)"),
    "C04": dict(category="model_checking", design="4/C04",
        technique="deviation-bounded exploration of real searches with an observer on every ruledb.add; oracle: re-application of the strategy, exact emptiness, label bijection",
        text="Every call of ruledb.add in every explored execution (packs with strategy/rule factories incl. foreign parents, symmetries, inferral chains, verification strategies; 3-4 rule databases) is checked: parent label carries the rule's class, child labels are the children's labels, the strategy belongs to the pack and reproduces the children, the stored key holds exactly the labels of the truly non-empty children, forest empty rules, labels<->classes bijection, cached emptiness. Also run over the parse-tree domain (products with a repeated factor, unit chains, reverse universes).",
        note="trusted: domain gate (set arithmetic) run on every rule met; exact emptiness predicate of the W-domain"),
    "C05": dict(category="model_checking", design="4/C05",
        technique="exhaustive enumeration of small rule dictionaries through every finder under all RNG decisions; explicit-state search over insertion sequences into real RuleDB objects; observed rule databases of real searches; oracles: independent GFP/LFP on SCC-collapsed rules, tree validity, brute-force minimum",
        text="(i) all rule dictionaries over 3 (4) labels through prune/iterative_prune and all finders under all (deviation-bounded for the larger ones) RNG decisions, bounded DFS generator for every bound; (ii) all sequences of <= L insertions of multi-child/two-way/one-way/verification rules into real RuleDB and RuleDBForgetStrategy, every start label, recursive and iterative, queried after every insertion and at the end, including the trees handed to the extractor and the smallest-tree search; (iii) rule databases of real searches.",
        note="trusted: mc/oracles.py gfp_prune, iterative_lfp, scc_partition, all_assignments (self-tested); stub searcher for (ii)"),
    "C06": dict(category="model_checking", design="4/C06",
        technique="explicit-state breadth-first search over histories of the real EquivalenceDB, deduplicated on complete internal state x reference model; oracle: plain reachability (SCC)",
        text="All histories of two-way edge / one-way edge / mark-verified / connect-cycles over 4 labels to depth 6 and 3 labels to depth 8 (thorough: 4 labels depth 7, 5 labels depth 6, 3 labels depth 10); in every state with no edge added since the last cycle detection equivalent/is_verified/find_path/__getitem__ are compared with mutual reachability for all ordered pairs.",
        note="trusted: scc_partition; states are copied attribute by attribute (attribute set asserted)"),
    "C07": dict(category="exploration", design="4/C07",
        technique="bounded-exhaustive enumeration of specifications x sizes x parameters and of rule forms x objects; oracle: plain enumeration of words / parse trees",
        text="Every specification of the corpus (W incl. marked words with a three-to-one rule, G incl. reverse-needed universes, every rule database): generated objects == plain enumeration, no repetition, number == the specification's own count, for all sizes <= N and parameter tuples in either keyword order. A second pass on a fresh copy asks size by size every class of the specification children first (also for absent parameter values) and compares every class, not only the root, with the plain enumeration. Every interruption point of one generation / counting call followed by a retry on the same specification. Every rule form with object maps (plain, equivalence, reverse-of-equivalence, equivalence paths): backward(forward(o)) == o for every parent object, parts in the children, forward(backward(parts)) == parts for every admissible tuple.",
        note="exhaustive over the stated finite families only"),
    "C08": dict(category="model_checking", design="4/C08",
        technique="exhaustive enumeration of the decisions of the random number generator (every draw value, every stub pick, every final choice) with exact Fraction arithmetic; end-to-end decision trees for small sizes",
        text="Per rule form with a sampler (incl. products with merged statistics on non-atomic factors and a three-to-one rule with a custom constructor) and per (size, parameters): the exact distribution over parent objects is computed from every outcome of the generator and must be uniform; descending into an empty composition is a violation. End to end: the complete decision tree of spec.random_sample_object_of_size for sizes <= 3 (4) on corpus specifications; refusal exactly when no object exists. (iii) for a sub-family, spec.sanity_check interrupted at every one of its requests to the random source, then the end-to-end tree on the same object.",
        note="trusted: stub sub-samplers uniform on the true child objects (induction hypothesis); factorisation by request pattern validated against the unreduced enumeration for counts <= 4"),
    "C09": dict(category="exploration", design="4/C09",
        technique="bounded-exhaustive enumeration of classes x strategies x derived rule forms (W and G families); oracle: plain enumeration bound to the sub-term providers",
        text="Every non-empty class of the W family x every strategy (dropped / merged / renamed statistics) and every class of every grammar of the G families x every derived form (plain, every reverse, equivalence, reverse-of-equivalence, equivalence-of-reverse, equivalence paths of length <= 3): computed terms == plain enumeration for all sizes <= N and parameter tuples.",
        note="trusted: domain brute force; every rule passes the domain gate first"),
    "C10": dict(category="exploration", design="4/C10",
        technique="same enumeration as C09 with logging sub-term providers, levels computed one at a time",
        text="For every rule form of C09 and every level n <= N: each request to child i is for a size <= n - shifts()[i], requests for the rule's own terms are < n, and the forest key carries shifts(). Every form is evaluated a second time on fresh rule objects with providers that answer a size without objects by an explicit zero coefficient.",
        note="only the first computation of each level is observable (terms are cached)"),
    "C11": dict(category="model_checking", design="4/C11",
        technique="explicit-state enumeration of all insertion orders of small rule universes through the real TableMethod + ForestRuleExtractor; observed extractors of real forest searches; oracle: independent least fixed point",
        text="Every duplicate-free sequence of <= 3 (4) keys from an alphabet of 3-label keys in all bucket assignments with a pumping root (the rule set is extracted from the same table after every insertion from the moment the root pumps), and every forest run of the search lattice: extracted keys are inserted keys, one rule per parent, closed, productive for the root by the independent LFP, minimal (no single rule removable), no REVERSE key when productive without; every extracted key of a real run is turned back into a rule with that key.",
        note="trusted: lfp_terms oracle"),
    "C12": dict(category="exploration", design="4/C12",
        technique="bounded-exhaustive enumeration of ordered pairs of specifications; oracle: plain enumeration of both root classes, object by object",
        text="All ordered pairs of the distinct specifications of a bounded family (W under three rule databases with/without a statistic, all pattern sets of <= 2 words of length 3, G grammars; every 7th pair after a JSON round trip): (plus the regular languages with <= 2 DFA states decomposed from the left or from the right) a returned bijection maps the objects of the first root one-to-one onto those of the second for all sizes <= N with a two-sided inverse; check is symmetric and reflexive. The family includes specifications with non-atomic verified leaves (facing atoms and decomposed classes).",
        note="each ordered pair judged independently"),
    "C13": dict(category="exploration", design="4/C13",
        technique="bounded-exhaustive enumeration of ordered pairs of searchers x both finder variants; oracles of C01/C02/C12 on the returned pair",
        text="All ordered pairs of the quick start classes x packs {base, symmetry, inferral, two expansion sets,...} x {ParallelSpecFinder, EqPathParallelSpecFinder}, with fresh searchers and (for packs with alternative rules) with both universes fully expanded beforehand: find() returns None or two specifications, each valid for its own start class, isomorphic, with a valid bijection; no exception. Plus ordered pairs of the regular languages with <= 2 DFA states (R-domain: first-letter / last-letter decompositions, alternative rules, shared classes, restricted strategy variants) and of the 3-state languages with equal counts up to size 6 (quick: every 12th pair). Plus ordered pairs of finite table universes (T-domain: classes equivalent to an atom that also decompose, shared between two parents; oracle: counting polynomial by recursion over the table, isomorphism both ways).",
        note="RuleDB only (the finder supports nothing else)"),
    "C14": dict(category="model_checking", design="4/C14",
        technique="lock-step runs of the two rule databases on the same controlled schedule with an observer after every insertion",
        text="Every configuration is run with RuleDB and RuleDBForgetStrategy under the same schedule (W-domain pack lattice incl. a factory whose first yielded strategy does not apply, and every one-nonterminal grammar of the parse-tree domain: rules with a repeated child); after every insertion: add stream, verified labels, has_specification, stored keys, contains() for stored and all small non-stored keys (bool, true exactly on stored keys), and the strategy handed back for every stored key of a non-empty class re-applied. Packs include the same one-child key produced by a one-way and then by a two-way strategy and factory rules that only the children's applications reproduce; which store holds a key is observed and a strategy handed back from the two-way store must be two-way.",
        note="queries with side effects (has_specification) are made identically on both; a second mode omits them"),
    "C15": dict(category="model_checking", design="4/C15",
        technique="explicit-state breadth-first search over operation histories of the real ClassDB (plain and compressed), closed state space; oracle: list-backed reference + invariants",
        text="All histories of get_label/get_class/in/is_empty/set_empty over a pool with equal-but-distinct and empty classes and labels -2..6, deduplicated on the backing lists until no new state appears; every transition compared with the reference, invariants (dense labels, bijection, cached emptiness) in every state. The alphabet includes an emptiness query whose computation is interrupted; a 123-class family with encodings of 7-70 bytes goes through fresh and shared databases (compact and JSON encodings).",
        note="set_empty is given the true emptiness (as the searcher does)"),
    "C16": dict(category="model_checking", design="4/C16",
        technique="explicit-state breadth-first search over histories of the real DefaultQueue with an obligation monitor (product state), do_level interleaved as a generator",
        text="All histories of add/stop/verified/not-inferrable/next/do_level-start/do_level-next over 2-3 labels for 7 (36) packs to depth 9 (11), 3 labels to depth 7 (9): never work for a stopped label, never the same (label, strategy) twice, complete ordered schedule for every live label at exhaustion, exhaustion is stable, do_level semantics.",
        note="trusted: Monitor (self-tested)"),
    "C17": dict(category="fault_enumeration", design="4/C17",
        technique="crash-point enumeration: interruption of the real auto_search by the virtual clock at every work-packet count, pickle round trip, differential continuation",
        text="For every configuration and every crash point k: interrupt, pickle, restore; restored == original, equal canonical universes, identical continuation (packet streams, universes, specification) to the end and through further interruption points; interrupted-then-resumed equals uninterrupted with the same check point; final specification passes C01/C02. The quick plans include packs whose crash points hold a label twice in the working deque (counted in the evidence). Every searcher that expand_comb_class builds (forest database seeded through its rule cache) is pickled right before it starts, compared with its restoration, and the expansion is continued with the restored searcher. Hosts the reduction-conformance run of the clock (one leap at every time() call). For a sub-family the time limit also expires just before every single time() call of the run (any call site) and the search is resumed.",
        note="horizon of 30 (60) work packets per configuration"),
    "C18": dict(category="exploration", design="4/C18",
        technique="bounded-exhaustive enumeration of serialisable artefacts of the corpus",
        text="Every corpus specification, pack, strategy and strategy-factory instance (created 6-9 ways, incl. subscripted generic aliases), rule form of C09 and bijection of C12 is dumped to JSON text and reloaded: equality both ways and equal behaviour (counts, objects, equations, maps). Specifications are also loaded from the dumped dictionary object itself and dumped again (repeatable).",
        note=""),
    "C19": dict(category="exploration", design="4/C19",
        technique="bounded-exhaustive enumeration of specifications with verified classes under every rule database; expand_verified under the virtual clock",
        text="For every start class x VerifyByPrefix(S) (all S of <= 2 prefixes of length <= 2, and nested verification where the offered pack verifies a deeper class) x variants x rule databases: expand_verified() result passes C01/C02, has no expandable verified class left, shares no rule of the specification with the original when something was expanded; the original is unchanged and still counts correctly. Every expand_comb_class call is observed: the pack used must be the one the class's own verification rule offers for that class (the offered pack depends on the class). Single classes are also expanded through expand_comb_class named by their label and by an equal but distinct class object. Includes verified classes that can only be expanded through the retry with reverse rules, also under an original specification that already contains a reverse rule (parse-tree domain).",
        note="the reverse-retry branch of expand_verified is not reached by the W-domain packs (stated in DESIGN limits)"),
    "C20": dict(category="exploration", design="4/C20",
        technique="bounded-exhaustive enumeration of equations of corpus specifications; oracle: true series by plain enumeration substituted positionally, coefficient comparison up to degree M; Taylor expansion of closed forms to order 12",
        text="Every equation of every corpus specification (W and G, 0-2 statistics, reverse rules, equivalence paths) is checked coefficient by coefficient up to degree M after substituting the true series; closed forms are expanded to order 12 (the library checks 6).",
        note="sympy is trusted for polynomial arithmetic; equations or closed forms exceeding the time budget are counted and skipped"),
}

REASON_PENDING = "check not built yet (work in progress; see DESIGN.md section 4 for the plan)"


def main():
    props = [json.loads(l) for l in open(os.path.join(VERIF, "properties.jsonl"))]
    checks, na = [], []
    for p in props:
        pid = p["id"]
        c = CLAIMS.get(pid)
        if c and os.path.exists(os.path.join(VERIF, "mc", "checks", pid.lower() + ".py")):
            checks.append({
                "property_id": pid,
                "quick_cmd": f"./check {pid} --tier quick",
                "thorough_cmd": f"./check {pid} --tier thorough",
                "evidence_file": f"/verif/evidence/{pid}.json",
                "replay_cmd_template": f"./check {pid} --replay {{path}}",
                "engine": "mc",
                "level_claimed": {"category": c["category"], "text": c["text"], "design_ref": "DESIGN.md section " + c["design"]},
                "level_note": c["note"],
                "technique": c["technique"],
            })
        else:
            na.append({"property_id": pid, "reason": (c or {}).get("na", REASON_PENDING)})
    m = {
        "version": 1,
        "setup_cmd": "/venv/bin/python -c \"import sys; sys.path.insert(0,'/verif'); import comb_spec_searcher, mc.core, mc.env, mc.domain_w\"",
        "hooks": {
            "guard": "CSS_VERIF_HOOKS",
            "enable": "no source hooks exist: the harness substitutes module-level seams of the library (time, random) at run time; ./check exports CSS_VERIF_HOOKS=1 for form",
            "baseline_off_cmd": "cd /repo && /venv/bin/python -m pytest -ra -q -p no:cacheprovider --timeout=900 --continue-on-collection-errors",
            "source_commits": [],
            "add_only": True,
        },
        "engines": [{
            "name": "mc",
            "path": "/verif/mc",
            "serves_properties": [c["property_id"] for c in checks],
            "kind_free_text": "hand-written explorers for Python: explicit-state search by history replay, deviation-bounded stateless exploration of clock/RNG decisions, bounded-exhaustive input enumeration, crash-point enumeration; reference models in mc/oracles.py",
        }],
        "checks": checks,
        "notes": "See DESIGN.md. Known findings: known_findings.json. Exit codes: 0 held, 1 VIOLATION, 2 HARNESS-ERROR.",
        "not_applicable": na,
    }
    json.dump(m, open(os.path.join(VERIF, "MANIFEST.json"), "w"), indent=1)
    print(f"{len(checks)} checks claimed, {len(na)} not claimed")


if __name__ == "__main__":
    main()
