#!/venv/bin/python
"""Regenerates /verif/MANIFEST.json from the table below (claimed checks) and
properties.jsonl (everything else goes to not_applicable with its reason)."""
import importlib, json, os, sys

VERIF = os.path.dirname(os.path.dirname(os.path.abspath(__file__)))
sys.path.insert(0, VERIF)

CLAIMS = {
    "C01": dict(
        category="model_checking",
        technique="stateless deviation-bounded exploration of clock/RNG decisions of the real auto_search + explicit-state search over searcher states (all slicings); oracle: plain enumeration",
        text="Every configuration of a stated lattice (start classes x statistics x packs x 4 rule databases x options) is run through the real auto_search under an explorer-owned clock and RNG: all schedules within the deviation bound from both default slicings, and all slicings by explicit-state search on the base configurations. Every distinct returned specification is compared with plain enumeration for all sizes <= N and all parameter tuples. Exhaustive within the bounds; says nothing beyond them.",
        note="trusted: W-domain brute force and strategies (domain gate), virtual clock site classification (conformance run in C17), bounds in evidence",
        design="4/C01"),
    "C02": dict(
        category="model_checking",
        technique="same exhaustive executions as C01; oracles: closure/reachability, re-application of strategies, independent least-fixed-point productivity",
        text="Same executions as C01. For every distinct returned specification: closure and reachability, no two rules for one class in the raw rule list, every rule re-derived by a fresh decomposition_function call of a pack strategy (through reverse/equivalence/path wrappers), productivity by an independent least-fixed-point computation on (parent, children, shifts).",
        note="trusted: domain emptiness predicate, LFP oracle (self-tested in C03)",
        design="4/C02"),
    "C03": dict(
        category="model_checking",
        technique="explicit-state search over insertion histories of the real TableMethod (all sequences with repetition to a depth, all permutations of fixed universes); oracle: independent least fixed point after every insertion",
        text="All sequences with repetition of rule keys from small alphabets up to a stated depth and all permutations of the test-suite universes are replayed on fresh TableMethod objects; after every insertion function/is_pumping/pumping_subuniverse are compared with an independent least-fixed-point computation and with the previous step (monotone).",
        note="trusted: mc/oracles.py lfp_terms (gap lemma in DESIGN 3.3; self-tested against the repository's hand-typed expectations and uncapped Kleene iteration)",
        design="4/C03"),
}

REASON_PENDING = "check not built yet (work in progress; see DESIGN.md section 4 for the plan)"


def main():
    props = [json.loads(l) for l in open(os.path.join(VERIF, "properties.jsonl"))]
    checks, na = [], []
    for p in props:
        pid = p["id"]
        c = CLAIMS.get(pid)
        if c and os.path.exists(os.path.join(VERIF, "mc", "checks", pid.lower() + ".py")):
            checks.append({
                "property_id": pid,
                "quick_cmd": f"./check {pid} --tier quick",
                "thorough_cmd": f"./check {pid} --tier thorough",
                "evidence_file": f"/verif/evidence/{pid}.json",
                "replay_cmd_template": f"./check {pid} --replay {{path}}",
                "engine": "mc",
                "level_claimed": {"category": c["category"], "text": c["text"], "design_ref": "DESIGN.md section " + c["design"]},
                "level_note": c["note"],
                "technique": c["technique"],
            })
        else:
            na.append({"property_id": pid, "reason": (c or {}).get("na", REASON_PENDING)})
    m = {
        "version": 1,
        "setup_cmd": "/venv/bin/python -c \"import sys; sys.path.insert(0,'/verif'); import comb_spec_searcher, mc.core, mc.env, mc.domain_w\"",
        "hooks": {
            "guard": "CSS_VERIF_HOOKS",
            "enable": "no source hooks exist: the harness substitutes module-level seams of the library (time, random) at run time; ./check exports CSS_VERIF_HOOKS=1 for form",
            "baseline_off_cmd": "cd /repo && /venv/bin/python -m pytest -ra -q -p no:cacheprovider --timeout=900 --continue-on-collection-errors",
            "source_commits": [],
            "add_only": True,
        },
        "engines": [{
            "name": "mc",
            "path": "/verif/mc",
            "serves_properties": [c["property_id"] for c in checks],
            "kind_free_text": "hand-written explorers for Python: explicit-state search by history replay, deviation-bounded stateless exploration of clock/RNG decisions, bounded-exhaustive input enumeration, crash-point enumeration; reference models in mc/oracles.py",
        }],
        "checks": checks,
        "notes": "See DESIGN.md. Known findings: known_findings.json. Exit codes: 0 held, 1 VIOLATION, 2 HARNESS-ERROR.",
        "not_applicable": na,
    }
    json.dump(m, open(os.path.join(VERIF, "MANIFEST.json"), "w"), indent=1)
    print(f"{len(checks)} checks claimed, {len(na)} not claimed")


if __name__ == "__main__":
    main()
