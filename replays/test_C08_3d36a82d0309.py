"""Replays one recorded execution for C08 without the explorer."""
import subprocess, sys


def test_replay_C08_3d36a82d0309():
    r = subprocess.run(['/verif/check', 'C08', '--replay', '/verif/replays/C08-3d36a82d0309.json'])
    assert r.returncode == 0, 'property violated by the recorded execution'
