"""Replays one recorded execution for C05 without the explorer."""
import subprocess, sys


def test_replay_C05_566f3a14e9a8():
    r = subprocess.run(['/verif/check', 'C05', '--replay', '/verif/replays/C05-566f3a14e9a8.json'])
    assert r.returncode == 0, 'property violated by the recorded execution'
