"""Replays one recorded execution for C04 without the explorer."""
import subprocess, sys


def test_replay_C04_9e841890d510():
    r = subprocess.run(['/verif/check', 'C04', '--replay', '/verif/replays/C04-9e841890d510.json'])
    assert r.returncode == 0, 'property violated by the recorded execution'
