"""Replays one recorded execution for C15 without the explorer."""
import subprocess, sys


def test_replay_C15_5f0b2c94c3ca():
    r = subprocess.run(['/verif/check', 'C15', '--replay', '/verif/replays/C15-5f0b2c94c3ca.json'])
    assert r.returncode == 0, 'property violated by the recorded execution'
