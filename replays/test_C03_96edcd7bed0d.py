"""Replays one recorded execution for C03 without the explorer."""
import subprocess, sys


def test_replay_C03_96edcd7bed0d():
    r = subprocess.run(['/verif/check', 'C03', '--replay', '/verif/replays/C03-96edcd7bed0d.json'])
    assert r.returncode == 0, 'property violated by the recorded execution'
