"""Replays one recorded execution for C04 without the explorer."""
import subprocess, sys


def test_replay_C04_80aff060e86a():
    r = subprocess.run(['/verif/check', 'C04', '--replay', '/verif/replays/C04-80aff060e86a.json'])
    assert r.returncode == 0, 'property violated by the recorded execution'
