"""Replays one recorded execution for C06 without the explorer."""
import subprocess, sys


def test_replay_C06_fee4d2d4b3a3():
    r = subprocess.run(['/verif/check', 'C06', '--replay', '/verif/replays/C06-fee4d2d4b3a3.json'])
    assert r.returncode == 0, 'property violated by the recorded execution'
