"""Replays one recorded execution for C08 without the explorer."""
import subprocess, sys


def test_replay_C08_8418cc30788c():
    r = subprocess.run(['/verif/check', 'C08', '--replay', '/verif/replays/C08-8418cc30788c.json'])
    assert r.returncode == 0, 'property violated by the recorded execution'
