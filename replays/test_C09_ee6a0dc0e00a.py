"""Replays one recorded execution for C09 without the explorer."""
import subprocess, sys


def test_replay_C09_ee6a0dc0e00a():
    r = subprocess.run(['/verif/check', 'C09', '--replay', '/verif/replays/C09-ee6a0dc0e00a.json'])
    assert r.returncode == 0, 'property violated by the recorded execution'
