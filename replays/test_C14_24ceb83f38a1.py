"""Replays one recorded execution for C14 without the explorer."""
import subprocess, sys


def test_replay_C14_24ceb83f38a1():
    r = subprocess.run(['/verif/check', 'C14', '--replay', '/verif/replays/C14-24ceb83f38a1.json'])
    assert r.returncode == 0, 'property violated by the recorded execution'
