"""Replays one recorded execution for C15 without the explorer."""
import subprocess, sys


def test_replay_C15_0c5092d14abb():
    r = subprocess.run(['/verif/check', 'C15', '--replay', '/verif/replays/C15-0c5092d14abb.json'])
    assert r.returncode == 0, 'property violated by the recorded execution'
