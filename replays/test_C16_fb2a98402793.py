"""Replays one recorded execution for C16 without the explorer."""
import subprocess, sys


def test_replay_C16_fb2a98402793():
    r = subprocess.run(['/verif/check', 'C16', '--replay', '/verif/replays/C16-fb2a98402793.json'])
    assert r.returncode == 0, 'property violated by the recorded execution'
