"""Replays one recorded execution for C02 without the explorer."""
import subprocess, sys


def test_replay_C02_29acfb9c0733():
    r = subprocess.run(['/verif/check', 'C02', '--replay', '/verif/replays/C02-29acfb9c0733.json'])
    assert r.returncode == 0, 'property violated by the recorded execution'
