"""Replays one recorded execution for C16 without the explorer."""
import subprocess, sys


def test_replay_C16_e9952635dc1d():
    r = subprocess.run(['/verif/check', 'C16', '--replay', '/verif/replays/C16-e9952635dc1d.json'])
    assert r.returncode == 0, 'property violated by the recorded execution'
