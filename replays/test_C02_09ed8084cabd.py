"""Replays one recorded execution for C02 without the explorer."""
import subprocess, sys


def test_replay_C02_09ed8084cabd():
    r = subprocess.run(['/verif/check', 'C02', '--replay', '/verif/replays/C02-09ed8084cabd.json'])
    assert r.returncode == 0, 'property violated by the recorded execution'
