"""Replays one recorded execution for C17 without the explorer."""
import subprocess, sys


def test_replay_C17_fc31e2a2285d():
    r = subprocess.run(['/verif/check', 'C17', '--replay', '/verif/replays/C17-fc31e2a2285d.json'])
    assert r.returncode == 0, 'property violated by the recorded execution'
