"""Replays one recorded execution for C01 without the explorer."""
import subprocess, sys


def test_replay_C01_15688b14c85b():
    r = subprocess.run(['/verif/check', 'C01', '--replay', '/verif/replays/C01-15688b14c85b.json'])
    assert r.returncode == 0, 'property violated by the recorded execution'
