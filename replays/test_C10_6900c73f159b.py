"""Replays one recorded execution for C10 without the explorer."""
import subprocess, sys


def test_replay_C10_6900c73f159b():
    r = subprocess.run(['/verif/check', 'C10', '--replay', '/verif/replays/C10-6900c73f159b.json'])
    assert r.returncode == 0, 'property violated by the recorded execution'
