"""Replays one recorded execution for C16 without the explorer."""
import subprocess, sys


def test_replay_C16_24f3ddf0d5c3():
    r = subprocess.run(['/verif/check', 'C16', '--replay', '/verif/replays/C16-24f3ddf0d5c3.json'])
    assert r.returncode == 0, 'property violated by the recorded execution'
