"""Replays one recorded execution for C09 without the explorer."""
import subprocess, sys


def test_replay_C09_c46ef86d01bc():
    r = subprocess.run(['/verif/check', 'C09', '--replay', '/verif/replays/C09-c46ef86d01bc.json'])
    assert r.returncode == 0, 'property violated by the recorded execution'
