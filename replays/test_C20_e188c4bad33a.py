"""Replays one recorded execution for C20 without the explorer."""
import subprocess, sys


def test_replay_C20_e188c4bad33a():
    r = subprocess.run(['/verif/check', 'C20', '--replay', '/verif/replays/C20-e188c4bad33a.json'])
    assert r.returncode == 0, 'property violated by the recorded execution'
