"""Replays one recorded execution for C04 without the explorer."""
import subprocess, sys


def test_replay_C04_257d991a1dc3():
    r = subprocess.run(['/verif/check', 'C04', '--replay', '/verif/replays/C04-257d991a1dc3.json'])
    assert r.returncode == 0, 'property violated by the recorded execution'
