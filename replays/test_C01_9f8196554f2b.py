"""Replays one recorded execution for C01 without the explorer."""
import subprocess, sys


def test_replay_C01_9f8196554f2b():
    r = subprocess.run(['/verif/check', 'C01', '--replay', '/verif/replays/C01-9f8196554f2b.json'])
    assert r.returncode == 0, 'property violated by the recorded execution'
