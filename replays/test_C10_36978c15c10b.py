"""Replays one recorded execution for C10 without the explorer."""
import subprocess, sys


def test_replay_C10_36978c15c10b():
    r = subprocess.run(['/verif/check', 'C10', '--replay', '/verif/replays/C10-36978c15c10b.json'])
    assert r.returncode == 0, 'property violated by the recorded execution'
