"""Replays one recorded execution for C16 without the explorer."""
import subprocess, sys


def test_replay_C16_87840c2f0d2f():
    r = subprocess.run(['/verif/check', 'C16', '--replay', '/verif/replays/C16-87840c2f0d2f.json'])
    assert r.returncode == 0, 'property violated by the recorded execution'
