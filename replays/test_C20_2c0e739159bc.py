"""Replays one recorded execution for C20 without the explorer."""
import subprocess, sys


def test_replay_C20_2c0e739159bc():
    r = subprocess.run(['/verif/check', 'C20', '--replay', '/verif/replays/C20-2c0e739159bc.json'])
    assert r.returncode == 0, 'property violated by the recorded execution'
