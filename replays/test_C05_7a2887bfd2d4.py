"""Replays one recorded execution for C05 without the explorer."""
import subprocess, sys


def test_replay_C05_7a2887bfd2d4():
    r = subprocess.run(['/verif/check', 'C05', '--replay', '/verif/replays/C05-7a2887bfd2d4.json'])
    assert r.returncode == 0, 'property violated by the recorded execution'
