"""Replays one recorded execution for C15 without the explorer."""
import subprocess, sys


def test_replay_C15_2bad67b6875d():
    r = subprocess.run(['/verif/check', 'C15', '--replay', '/verif/replays/C15-2bad67b6875d.json'])
    assert r.returncode == 0, 'property violated by the recorded execution'
