"""Replays one recorded execution for C09 without the explorer."""
import subprocess, sys


def test_replay_C09_28fc1a0d6af3():
    r = subprocess.run(['/verif/check', 'C09', '--replay', '/verif/replays/C09-28fc1a0d6af3.json'])
    assert r.returncode == 0, 'property violated by the recorded execution'
