"""Replays one recorded execution for C11 without the explorer."""
import subprocess, sys


def test_replay_C11_a43b9b844de6():
    r = subprocess.run(['/verif/check', 'C11', '--replay', '/verif/replays/C11-a43b9b844de6.json'])
    assert r.returncode == 0, 'property violated by the recorded execution'
