"""Replays one recorded execution for C15 without the explorer."""
import subprocess, sys


def test_replay_C15_17cd6def222b():
    r = subprocess.run(['/verif/check', 'C15', '--replay', '/verif/replays/C15-17cd6def222b.json'])
    assert r.returncode == 0, 'property violated by the recorded execution'
