"""Replays one recorded execution for C08 without the explorer."""
import subprocess, sys


def test_replay_C08_85caf5ec071a():
    r = subprocess.run(['/verif/check', 'C08', '--replay', '/verif/replays/C08-85caf5ec071a.json'])
    assert r.returncode == 0, 'property violated by the recorded execution'
