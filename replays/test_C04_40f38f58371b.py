"""Replays one recorded execution for C04 without the explorer."""
import subprocess, sys


def test_replay_C04_40f38f58371b():
    r = subprocess.run(['/verif/check', 'C04', '--replay', '/verif/replays/C04-40f38f58371b.json'])
    assert r.returncode == 0, 'property violated by the recorded execution'
