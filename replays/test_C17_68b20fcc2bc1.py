"""Replays one recorded execution for C17 without the explorer."""
import subprocess, sys


def test_replay_C17_68b20fcc2bc1():
    r = subprocess.run(['/verif/check', 'C17', '--replay', '/verif/replays/C17-68b20fcc2bc1.json'])
    assert r.returncode == 0, 'property violated by the recorded execution'
