"""Replays one recorded execution for C18 without the explorer."""
import subprocess, sys


def test_replay_C18_a75fffdb419e():
    r = subprocess.run(['/verif/check', 'C18', '--replay', '/verif/replays/C18-a75fffdb419e.json'])
    assert r.returncode == 0, 'property violated by the recorded execution'
