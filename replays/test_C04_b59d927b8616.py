"""Replays one recorded execution for C04 without the explorer."""
import subprocess, sys


def test_replay_C04_b59d927b8616():
    r = subprocess.run(['/verif/check', 'C04', '--replay', '/verif/replays/C04-b59d927b8616.json'])
    assert r.returncode == 0, 'property violated by the recorded execution'
