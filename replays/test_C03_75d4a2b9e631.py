"""Replays one recorded execution for C03 without the explorer."""
import subprocess, sys


def test_replay_C03_75d4a2b9e631():
    r = subprocess.run(['/verif/check', 'C03', '--replay', '/verif/replays/C03-75d4a2b9e631.json'])
    assert r.returncode == 0, 'property violated by the recorded execution'
