"""Replays one recorded execution for C01 without the explorer."""
import subprocess, sys


def test_replay_C01_b1c9d45967b4():
    r = subprocess.run(['/verif/check', 'C01', '--replay', '/verif/replays/C01-b1c9d45967b4.json'])
    assert r.returncode == 0, 'property violated by the recorded execution'
