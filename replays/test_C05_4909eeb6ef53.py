"""Replays one recorded execution for C05 without the explorer."""
import subprocess, sys


def test_replay_C05_4909eeb6ef53():
    r = subprocess.run(['/verif/check', 'C05', '--replay', '/verif/replays/C05-4909eeb6ef53.json'])
    assert r.returncode == 0, 'property violated by the recorded execution'
