"""Replays one recorded execution for C15 without the explorer."""
import subprocess, sys


def test_replay_C15_9a4789d2dfde():
    r = subprocess.run(['/verif/check', 'C15', '--replay', '/verif/replays/C15-9a4789d2dfde.json'])
    assert r.returncode == 0, 'property violated by the recorded execution'
