"""Replays one recorded execution for C09 without the explorer."""
import subprocess, sys


def test_replay_C09_0dc8ea3d318a():
    r = subprocess.run(['/verif/check', 'C09', '--replay', '/verif/replays/C09-0dc8ea3d318a.json'])
    assert r.returncode == 0, 'property violated by the recorded execution'
