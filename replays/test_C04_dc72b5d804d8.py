"""Replays one recorded execution for C04 without the explorer."""
import subprocess, sys


def test_replay_C04_dc72b5d804d8():
    r = subprocess.run(['/verif/check', 'C04', '--replay', '/verif/replays/C04-dc72b5d804d8.json'])
    assert r.returncode == 0, 'property violated by the recorded execution'
