"""Replays one recorded execution for C08 without the explorer."""
import subprocess, sys


def test_replay_C08_1e5a9ee154bb():
    r = subprocess.run(['/verif/check', 'C08', '--replay', '/verif/replays/C08-1e5a9ee154bb.json'])
    assert r.returncode == 0, 'property violated by the recorded execution'
