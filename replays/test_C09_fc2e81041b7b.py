"""Replays one recorded execution for C09 without the explorer."""
import subprocess, sys


def test_replay_C09_fc2e81041b7b():
    r = subprocess.run(['/verif/check', 'C09', '--replay', '/verif/replays/C09-fc2e81041b7b.json'])
    assert r.returncode == 0, 'property violated by the recorded execution'
