"""Replays one recorded execution for C10 without the explorer."""
import subprocess, sys


def test_replay_C10_176e2ea5e1de():
    r = subprocess.run(['/verif/check', 'C10', '--replay', '/verif/replays/C10-176e2ea5e1de.json'])
    assert r.returncode == 0, 'property violated by the recorded execution'
