"""Replays one recorded execution for C19 without the explorer."""
import subprocess, sys


def test_replay_C19_9b39e41a5b8d():
    r = subprocess.run(['/verif/check', 'C19', '--replay', '/verif/replays/C19-9b39e41a5b8d.json'])
    assert r.returncode == 0, 'property violated by the recorded execution'
