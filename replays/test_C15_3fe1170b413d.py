"""Replays one recorded execution for C15 without the explorer."""
import subprocess, sys


def test_replay_C15_3fe1170b413d():
    r = subprocess.run(['/verif/check', 'C15', '--replay', '/verif/replays/C15-3fe1170b413d.json'])
    assert r.returncode == 0, 'property violated by the recorded execution'
