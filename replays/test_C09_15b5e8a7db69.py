"""Replays one recorded execution for C09 without the explorer."""
import subprocess, sys


def test_replay_C09_15b5e8a7db69():
    r = subprocess.run(['/verif/check', 'C09', '--replay', '/verif/replays/C09-15b5e8a7db69.json'])
    assert r.returncode == 0, 'property violated by the recorded execution'
