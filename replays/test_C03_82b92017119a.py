"""Replays one recorded execution for C03 without the explorer."""
import subprocess, sys


def test_replay_C03_82b92017119a():
    r = subprocess.run(['/verif/check', 'C03', '--replay', '/verif/replays/C03-82b92017119a.json'])
    assert r.returncode == 0, 'property violated by the recorded execution'
