"""Replays one recorded execution for C09 without the explorer."""
import subprocess, sys


def test_replay_C09_b9fd58eded1d():
    r = subprocess.run(['/verif/check', 'C09', '--replay', '/verif/replays/C09-b9fd58eded1d.json'])
    assert r.returncode == 0, 'property violated by the recorded execution'
