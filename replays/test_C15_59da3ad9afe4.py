"""Replays one recorded execution for C15 without the explorer."""
import subprocess, sys


def test_replay_C15_59da3ad9afe4():
    r = subprocess.run(['/verif/check', 'C15', '--replay', '/verif/replays/C15-59da3ad9afe4.json'])
    assert r.returncode == 0, 'property violated by the recorded execution'
