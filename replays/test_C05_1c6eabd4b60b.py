"""Replays one recorded execution for C05 without the explorer."""
import subprocess, sys


def test_replay_C05_1c6eabd4b60b():
    r = subprocess.run(['/verif/check', 'C05', '--replay', '/verif/replays/C05-1c6eabd4b60b.json'])
    assert r.returncode == 0, 'property violated by the recorded execution'
