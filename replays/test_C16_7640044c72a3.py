"""Replays one recorded execution for C16 without the explorer."""
import subprocess, sys


def test_replay_C16_7640044c72a3():
    r = subprocess.run(['/verif/check', 'C16', '--replay', '/verif/replays/C16-7640044c72a3.json'])
    assert r.returncode == 0, 'property violated by the recorded execution'
