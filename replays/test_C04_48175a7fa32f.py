"""Replays one recorded execution for C04 without the explorer."""
import subprocess, sys


def test_replay_C04_48175a7fa32f():
    r = subprocess.run(['/verif/check', 'C04', '--replay', '/verif/replays/C04-48175a7fa32f.json'])
    assert r.returncode == 0, 'property violated by the recorded execution'
