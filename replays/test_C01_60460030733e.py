"""Replays one recorded execution for C01 without the explorer."""
import subprocess, sys


def test_replay_C01_60460030733e():
    r = subprocess.run(['/verif/check', 'C01', '--replay', '/verif/replays/C01-60460030733e.json'])
    assert r.returncode == 0, 'property violated by the recorded execution'
