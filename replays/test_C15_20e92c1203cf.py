"""Replays one recorded execution for C15 without the explorer."""
import subprocess, sys


def test_replay_C15_20e92c1203cf():
    r = subprocess.run(['/verif/check', 'C15', '--replay', '/verif/replays/C15-20e92c1203cf.json'])
    assert r.returncode == 0, 'property violated by the recorded execution'
