"""Replays one recorded execution for C16 without the explorer."""
import subprocess, sys


def test_replay_C16_0dc27ce2aa6b():
    r = subprocess.run(['/verif/check', 'C16', '--replay', '/verif/replays/C16-0dc27ce2aa6b.json'])
    assert r.returncode == 0, 'property violated by the recorded execution'
