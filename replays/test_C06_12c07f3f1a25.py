"""Replays one recorded execution for C06 without the explorer."""
import subprocess, sys


def test_replay_C06_12c07f3f1a25():
    r = subprocess.run(['/verif/check', 'C06', '--replay', '/verif/replays/C06-12c07f3f1a25.json'])
    assert r.returncode == 0, 'property violated by the recorded execution'
