"""Replays one recorded execution for C05 without the explorer."""
import subprocess, sys


def test_replay_C05_b8e150b1f3bb():
    r = subprocess.run(['/verif/check', 'C05', '--replay', '/verif/replays/C05-b8e150b1f3bb.json'])
    assert r.returncode == 0, 'property violated by the recorded execution'
