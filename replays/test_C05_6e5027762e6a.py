"""Replays one recorded execution for C05 without the explorer."""
import subprocess, sys


def test_replay_C05_6e5027762e6a():
    r = subprocess.run(['/verif/check', 'C05', '--replay', '/verif/replays/C05-6e5027762e6a.json'])
    assert r.returncode == 0, 'property violated by the recorded execution'
