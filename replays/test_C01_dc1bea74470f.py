"""Replays one recorded execution for C01 without the explorer."""
import subprocess, sys


def test_replay_C01_dc1bea74470f():
    r = subprocess.run(['/verif/check', 'C01', '--replay', '/verif/replays/C01-dc1bea74470f.json'])
    assert r.returncode == 0, 'property violated by the recorded execution'
