"""Replays one recorded execution for C01 without the explorer."""
import subprocess, sys


def test_replay_C01_82b3e78d03ee():
    r = subprocess.run(['/verif/check', 'C01', '--replay', '/verif/replays/C01-82b3e78d03ee.json'])
    assert r.returncode == 0, 'property violated by the recorded execution'
