"""Replays one recorded execution for C12 without the explorer."""
import subprocess, sys


def test_replay_C12_1b05ca9f56f2():
    r = subprocess.run(['/verif/check', 'C12', '--replay', '/verif/replays/C12-1b05ca9f56f2.json'])
    assert r.returncode == 0, 'property violated by the recorded execution'
