"""Replays one recorded execution for C06 without the explorer."""
import subprocess, sys


def test_replay_C06_22272a029287():
    r = subprocess.run(['/verif/check', 'C06', '--replay', '/verif/replays/C06-22272a029287.json'])
    assert r.returncode == 0, 'property violated by the recorded execution'
