"""Replays one recorded execution for C07 without the explorer."""
import subprocess, sys


def test_replay_C07_597109c7239a():
    r = subprocess.run(['/verif/check', 'C07', '--replay', '/verif/replays/C07-597109c7239a.json'])
    assert r.returncode == 0, 'property violated by the recorded execution'
