"""Replays one recorded execution for C04 without the explorer."""
import subprocess, sys


def test_replay_C04_d2a2fdd2fbaf():
    r = subprocess.run(['/verif/check', 'C04', '--replay', '/verif/replays/C04-d2a2fdd2fbaf.json'])
    assert r.returncode == 0, 'property violated by the recorded execution'
