"""Replays one recorded execution for C11 without the explorer."""
import subprocess, sys


def test_replay_C11_4ce0d36433ea():
    r = subprocess.run(['/verif/check', 'C11', '--replay', '/verif/replays/C11-4ce0d36433ea.json'])
    assert r.returncode == 0, 'property violated by the recorded execution'
