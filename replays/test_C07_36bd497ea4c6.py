"""Replays one recorded execution for C07 without the explorer."""
import subprocess, sys


def test_replay_C07_36bd497ea4c6():
    r = subprocess.run(['/verif/check', 'C07', '--replay', '/verif/replays/C07-36bd497ea4c6.json'])
    assert r.returncode == 0, 'property violated by the recorded execution'
