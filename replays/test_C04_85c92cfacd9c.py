"""Replays one recorded execution for C04 without the explorer."""
import subprocess, sys


def test_replay_C04_85c92cfacd9c():
    r = subprocess.run(['/verif/check', 'C04', '--replay', '/verif/replays/C04-85c92cfacd9c.json'])
    assert r.returncode == 0, 'property violated by the recorded execution'
