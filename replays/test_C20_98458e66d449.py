"""Replays one recorded execution for C20 without the explorer."""
import subprocess, sys


def test_replay_C20_98458e66d449():
    r = subprocess.run(['/verif/check', 'C20', '--replay', '/verif/replays/C20-98458e66d449.json'])
    assert r.returncode == 0, 'property violated by the recorded execution'
