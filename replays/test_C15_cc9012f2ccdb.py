"""Replays one recorded execution for C15 without the explorer."""
import subprocess, sys


def test_replay_C15_cc9012f2ccdb():
    r = subprocess.run(['/verif/check', 'C15', '--replay', '/verif/replays/C15-cc9012f2ccdb.json'])
    assert r.returncode == 0, 'property violated by the recorded execution'
