"""Replays one recorded execution for C17 without the explorer."""
import subprocess, sys


def test_replay_C17_f030b80ad9b3():
    r = subprocess.run(['/verif/check', 'C17', '--replay', '/verif/replays/C17-f030b80ad9b3.json'])
    assert r.returncode == 0, 'property violated by the recorded execution'
