"""Replays one recorded execution for C04 without the explorer."""
import subprocess, sys


def test_replay_C04_107eb56c2044():
    r = subprocess.run(['/verif/check', 'C04', '--replay', '/verif/replays/C04-107eb56c2044.json'])
    assert r.returncode == 0, 'property violated by the recorded execution'
