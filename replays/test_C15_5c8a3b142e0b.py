"""Replays one recorded execution for C15 without the explorer."""
import subprocess, sys


def test_replay_C15_5c8a3b142e0b():
    r = subprocess.run(['/verif/check', 'C15', '--replay', '/verif/replays/C15-5c8a3b142e0b.json'])
    assert r.returncode == 0, 'property violated by the recorded execution'
