"""Replays one recorded execution for C13 without the explorer."""
import subprocess, sys


def test_replay_C13_cf59503f237c():
    r = subprocess.run(['/verif/check', 'C13', '--replay', '/verif/replays/C13-cf59503f237c.json'])
    assert r.returncode == 0, 'property violated by the recorded execution'
