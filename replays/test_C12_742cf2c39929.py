"""Replays one recorded execution for C12 without the explorer."""
import subprocess, sys


def test_replay_C12_742cf2c39929():
    r = subprocess.run(['/verif/check', 'C12', '--replay', '/verif/replays/C12-742cf2c39929.json'])
    assert r.returncode == 0, 'property violated by the recorded execution'
