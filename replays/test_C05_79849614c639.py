"""Replays one recorded execution for C05 without the explorer."""
import subprocess, sys


def test_replay_C05_79849614c639():
    r = subprocess.run(['/verif/check', 'C05', '--replay', '/verif/replays/C05-79849614c639.json'])
    assert r.returncode == 0, 'property violated by the recorded execution'
