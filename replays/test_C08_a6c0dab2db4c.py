"""Replays one recorded execution for C08 without the explorer."""
import subprocess, sys


def test_replay_C08_a6c0dab2db4c():
    r = subprocess.run(['/verif/check', 'C08', '--replay', '/verif/replays/C08-a6c0dab2db4c.json'])
    assert r.returncode == 0, 'property violated by the recorded execution'
