"""Replays one recorded execution for C15 without the explorer."""
import subprocess, sys


def test_replay_C15_b6229a536efa():
    r = subprocess.run(['/verif/check', 'C15', '--replay', '/verif/replays/C15-b6229a536efa.json'])
    assert r.returncode == 0, 'property violated by the recorded execution'
