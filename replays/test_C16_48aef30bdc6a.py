"""Replays one recorded execution for C16 without the explorer."""
import subprocess, sys


def test_replay_C16_48aef30bdc6a():
    r = subprocess.run(['/verif/check', 'C16', '--replay', '/verif/replays/C16-48aef30bdc6a.json'])
    assert r.returncode == 0, 'property violated by the recorded execution'
