"""Replays one recorded execution for C16 without the explorer."""
import subprocess, sys


def test_replay_C16_d0b4e8ea7318():
    r = subprocess.run(['/verif/check', 'C16', '--replay', '/verif/replays/C16-d0b4e8ea7318.json'])
    assert r.returncode == 0, 'property violated by the recorded execution'
