"""Replays one recorded execution for C16 without the explorer."""
import subprocess, sys


def test_replay_C16_8c1e04fe6df3():
    r = subprocess.run(['/verif/check', 'C16', '--replay', '/verif/replays/C16-8c1e04fe6df3.json'])
    assert r.returncode == 0, 'property violated by the recorded execution'
