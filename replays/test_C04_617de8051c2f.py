"""Replays one recorded execution for C04 without the explorer."""
import subprocess, sys


def test_replay_C04_617de8051c2f():
    r = subprocess.run(['/verif/check', 'C04', '--replay', '/verif/replays/C04-617de8051c2f.json'])
    assert r.returncode == 0, 'property violated by the recorded execution'
