"""Replays one recorded execution for C06 without the explorer."""
import subprocess, sys


def test_replay_C06_5b8d76ad097a():
    r = subprocess.run(['/verif/check', 'C06', '--replay', '/verif/replays/C06-5b8d76ad097a.json'])
    assert r.returncode == 0, 'property violated by the recorded execution'
