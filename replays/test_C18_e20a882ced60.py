"""Replays one recorded execution for C18 without the explorer."""
import subprocess, sys


def test_replay_C18_e20a882ced60():
    r = subprocess.run(['/verif/check', 'C18', '--replay', '/verif/replays/C18-e20a882ced60.json'])
    assert r.returncode == 0, 'property violated by the recorded execution'
