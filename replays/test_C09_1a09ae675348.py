"""Replays one recorded execution for C09 without the explorer."""
import subprocess, sys


def test_replay_C09_1a09ae675348():
    r = subprocess.run(['/verif/check', 'C09', '--replay', '/verif/replays/C09-1a09ae675348.json'])
    assert r.returncode == 0, 'property violated by the recorded execution'
