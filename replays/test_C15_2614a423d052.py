"""Replays one recorded execution for C15 without the explorer."""
import subprocess, sys


def test_replay_C15_2614a423d052():
    r = subprocess.run(['/verif/check', 'C15', '--replay', '/verif/replays/C15-2614a423d052.json'])
    assert r.returncode == 0, 'property violated by the recorded execution'
