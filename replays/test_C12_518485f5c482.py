"""Replays one recorded execution for C12 without the explorer."""
import subprocess, sys


def test_replay_C12_518485f5c482():
    r = subprocess.run(['/verif/check', 'C12', '--replay', '/verif/replays/C12-518485f5c482.json'])
    assert r.returncode == 0, 'property violated by the recorded execution'
