"""Replays one recorded execution for C18 without the explorer."""
import subprocess, sys


def test_replay_C18_56524898dcfb():
    r = subprocess.run(['/verif/check', 'C18', '--replay', '/verif/replays/C18-56524898dcfb.json'])
    assert r.returncode == 0, 'property violated by the recorded execution'
