"""Replays one recorded execution for C02 without the explorer."""
import subprocess, sys


def test_replay_C02_661da0294f7c():
    r = subprocess.run(['/verif/check', 'C02', '--replay', '/verif/replays/C02-661da0294f7c.json'])
    assert r.returncode == 0, 'property violated by the recorded execution'
