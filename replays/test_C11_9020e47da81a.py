"""Replays one recorded execution for C11 without the explorer."""
import subprocess, sys


def test_replay_C11_9020e47da81a():
    r = subprocess.run(['/verif/check', 'C11', '--replay', '/verif/replays/C11-9020e47da81a.json'])
    assert r.returncode == 0, 'property violated by the recorded execution'
