"""Replays one recorded execution for C17 without the explorer."""
import subprocess, sys


def test_replay_C17_0d5d9f6d68d0():
    r = subprocess.run(['/verif/check', 'C17', '--replay', '/verif/replays/C17-0d5d9f6d68d0.json'])
    assert r.returncode == 0, 'property violated by the recorded execution'
