"""Replays one recorded execution for C15 without the explorer."""
import subprocess, sys


def test_replay_C15_20a424429743():
    r = subprocess.run(['/verif/check', 'C15', '--replay', '/verif/replays/C15-20a424429743.json'])
    assert r.returncode == 0, 'property violated by the recorded execution'
