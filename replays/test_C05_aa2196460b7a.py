"""Replays one recorded execution for C05 without the explorer."""
import subprocess, sys


def test_replay_C05_aa2196460b7a():
    r = subprocess.run(['/verif/check', 'C05', '--replay', '/verif/replays/C05-aa2196460b7a.json'])
    assert r.returncode == 0, 'property violated by the recorded execution'
