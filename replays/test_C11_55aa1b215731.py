"""Replays one recorded execution for C11 without the explorer."""
import subprocess, sys


def test_replay_C11_55aa1b215731():
    r = subprocess.run(['/verif/check', 'C11', '--replay', '/verif/replays/C11-55aa1b215731.json'])
    assert r.returncode == 0, 'property violated by the recorded execution'
