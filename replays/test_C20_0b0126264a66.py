"""Replays one recorded execution for C20 without the explorer."""
import subprocess, sys


def test_replay_C20_0b0126264a66():
    r = subprocess.run(['/verif/check', 'C20', '--replay', '/verif/replays/C20-0b0126264a66.json'])
    assert r.returncode == 0, 'property violated by the recorded execution'
