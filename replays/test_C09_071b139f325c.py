"""Replays one recorded execution for C09 without the explorer."""
import subprocess, sys


def test_replay_C09_071b139f325c():
    r = subprocess.run(['/verif/check', 'C09', '--replay', '/verif/replays/C09-071b139f325c.json'])
    assert r.returncode == 0, 'property violated by the recorded execution'
