"""Replays one recorded execution for C03 without the explorer."""
import subprocess, sys


def test_replay_C03_7a99bd8ce4ee():
    r = subprocess.run(['/verif/check', 'C03', '--replay', '/verif/replays/C03-7a99bd8ce4ee.json'])
    assert r.returncode == 0, 'property violated by the recorded execution'
