"""Replays one recorded execution for C19 without the explorer."""
import subprocess, sys


def test_replay_C19_28de786d44b4():
    r = subprocess.run(['/verif/check', 'C19', '--replay', '/verif/replays/C19-28de786d44b4.json'])
    assert r.returncode == 0, 'property violated by the recorded execution'
