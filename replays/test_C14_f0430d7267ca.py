"""Replays one recorded execution for C14 without the explorer."""
import subprocess, sys


def test_replay_C14_f0430d7267ca():
    r = subprocess.run(['/verif/check', 'C14', '--replay', '/verif/replays/C14-f0430d7267ca.json'])
    assert r.returncode == 0, 'property violated by the recorded execution'
