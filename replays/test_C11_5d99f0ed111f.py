"""Replays one recorded execution for C11 without the explorer."""
import subprocess, sys


def test_replay_C11_5d99f0ed111f():
    r = subprocess.run(['/verif/check', 'C11', '--replay', '/verif/replays/C11-5d99f0ed111f.json'])
    assert r.returncode == 0, 'property violated by the recorded execution'
