"""Replays one recorded execution for C09 without the explorer."""
import subprocess, sys


def test_replay_C09_9a468cf1142e():
    r = subprocess.run(['/verif/check', 'C09', '--replay', '/verif/replays/C09-9a468cf1142e.json'])
    assert r.returncode == 0, 'property violated by the recorded execution'
