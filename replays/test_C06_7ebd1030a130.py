"""Replays one recorded execution for C06 without the explorer."""
import subprocess, sys


def test_replay_C06_7ebd1030a130():
    r = subprocess.run(['/verif/check', 'C06', '--replay', '/verif/replays/C06-7ebd1030a130.json'])
    assert r.returncode == 0, 'property violated by the recorded execution'
