"""Replays one recorded execution for C03 without the explorer."""
import subprocess, sys


def test_replay_C03_9146339bf001():
    r = subprocess.run(['/verif/check', 'C03', '--replay', '/verif/replays/C03-9146339bf001.json'])
    assert r.returncode == 0, 'property violated by the recorded execution'
