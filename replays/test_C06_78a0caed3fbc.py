"""Replays one recorded execution for C06 without the explorer."""
import subprocess, sys


def test_replay_C06_78a0caed3fbc():
    r = subprocess.run(['/verif/check', 'C06', '--replay', '/verif/replays/C06-78a0caed3fbc.json'])
    assert r.returncode == 0, 'property violated by the recorded execution'
