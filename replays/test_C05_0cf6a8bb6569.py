"""Replays one recorded execution for C05 without the explorer."""
import subprocess, sys


def test_replay_C05_0cf6a8bb6569():
    r = subprocess.run(['/verif/check', 'C05', '--replay', '/verif/replays/C05-0cf6a8bb6569.json'])
    assert r.returncode == 0, 'property violated by the recorded execution'
