"""Replays one recorded execution for C01 without the explorer."""
import subprocess, sys


def test_replay_C01_0a9dd85b1b33():
    r = subprocess.run(['/verif/check', 'C01', '--replay', '/verif/replays/C01-0a9dd85b1b33.json'])
    assert r.returncode == 0, 'property violated by the recorded execution'
