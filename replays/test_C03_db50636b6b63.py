"""Replays one recorded execution for C03 without the explorer."""
import subprocess, sys


def test_replay_C03_db50636b6b63():
    r = subprocess.run(['/verif/check', 'C03', '--replay', '/verif/replays/C03-db50636b6b63.json'])
    assert r.returncode == 0, 'property violated by the recorded execution'
