"""Replays one recorded execution for C16 without the explorer."""
import subprocess, sys


def test_replay_C16_85dd672b2ab6():
    r = subprocess.run(['/verif/check', 'C16', '--replay', '/verif/replays/C16-85dd672b2ab6.json'])
    assert r.returncode == 0, 'property violated by the recorded execution'
