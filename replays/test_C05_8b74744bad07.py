"""Replays one recorded execution for C05 without the explorer."""
import subprocess, sys


def test_replay_C05_8b74744bad07():
    r = subprocess.run(['/verif/check', 'C05', '--replay', '/verif/replays/C05-8b74744bad07.json'])
    assert r.returncode == 0, 'property violated by the recorded execution'
