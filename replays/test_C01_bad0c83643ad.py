"""Replays one recorded execution for C01 without the explorer."""
import subprocess, sys


def test_replay_C01_bad0c83643ad():
    r = subprocess.run(['/verif/check', 'C01', '--replay', '/verif/replays/C01-bad0c83643ad.json'])
    assert r.returncode == 0, 'property violated by the recorded execution'
