"""Replays one recorded execution for C03 without the explorer."""
import subprocess, sys


def test_replay_C03_38993aa3914e():
    r = subprocess.run(['/verif/check', 'C03', '--replay', '/verif/replays/C03-38993aa3914e.json'])
    assert r.returncode == 0, 'property violated by the recorded execution'
