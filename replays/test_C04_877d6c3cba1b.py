"""Replays one recorded execution for C04 without the explorer."""
import subprocess, sys


def test_replay_C04_877d6c3cba1b():
    r = subprocess.run(['/verif/check', 'C04', '--replay', '/verif/replays/C04-877d6c3cba1b.json'])
    assert r.returncode == 0, 'property violated by the recorded execution'
