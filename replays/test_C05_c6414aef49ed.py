"""Replays one recorded execution for C05 without the explorer."""
import subprocess, sys


def test_replay_C05_c6414aef49ed():
    r = subprocess.run(['/verif/check', 'C05', '--replay', '/verif/replays/C05-c6414aef49ed.json'])
    assert r.returncode == 0, 'property violated by the recorded execution'
