"""Replays one recorded execution for C13 without the explorer."""
import subprocess, sys


def test_replay_C13_f19f2982fa98():
    r = subprocess.run(['/verif/check', 'C13', '--replay', '/verif/replays/C13-f19f2982fa98.json'])
    assert r.returncode == 0, 'property violated by the recorded execution'
