"""Replays one recorded execution for C14 without the explorer."""
import subprocess, sys


def test_replay_C14_ed7ba94599df():
    r = subprocess.run(['/verif/check', 'C14', '--replay', '/verif/replays/C14-ed7ba94599df.json'])
    assert r.returncode == 0, 'property violated by the recorded execution'
