"""Replays one recorded execution for C15 without the explorer."""
import subprocess, sys


def test_replay_C15_d23d347a9bea():
    r = subprocess.run(['/verif/check', 'C15', '--replay', '/verif/replays/C15-d23d347a9bea.json'])
    assert r.returncode == 0, 'property violated by the recorded execution'
