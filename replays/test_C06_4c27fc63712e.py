"""Replays one recorded execution for C06 without the explorer."""
import subprocess, sys


def test_replay_C06_4c27fc63712e():
    r = subprocess.run(['/verif/check', 'C06', '--replay', '/verif/replays/C06-4c27fc63712e.json'])
    assert r.returncode == 0, 'property violated by the recorded execution'
