"""Replays one recorded execution for C13 without the explorer."""
import subprocess, sys


def test_replay_C13_4c0615ee0f18():
    r = subprocess.run(['/verif/check', 'C13', '--replay', '/verif/replays/C13-4c0615ee0f18.json'])
    assert r.returncode == 0, 'property violated by the recorded execution'
