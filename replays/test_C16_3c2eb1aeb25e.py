"""Replays one recorded execution for C16 without the explorer."""
import subprocess, sys


def test_replay_C16_3c2eb1aeb25e():
    r = subprocess.run(['/verif/check', 'C16', '--replay', '/verif/replays/C16-3c2eb1aeb25e.json'])
    assert r.returncode == 0, 'property violated by the recorded execution'
