"""Replays one recorded execution for C06 without the explorer."""
import subprocess, sys


def test_replay_C06_8676b7028f2c():
    r = subprocess.run(['/verif/check', 'C06', '--replay', '/verif/replays/C06-8676b7028f2c.json'])
    assert r.returncode == 0, 'property violated by the recorded execution'
