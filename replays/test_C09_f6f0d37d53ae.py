"""Replays one recorded execution for C09 without the explorer."""
import subprocess, sys


def test_replay_C09_f6f0d37d53ae():
    r = subprocess.run(['/verif/check', 'C09', '--replay', '/verif/replays/C09-f6f0d37d53ae.json'])
    assert r.returncode == 0, 'property violated by the recorded execution'
