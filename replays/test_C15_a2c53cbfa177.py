"""Replays one recorded execution for C15 without the explorer."""
import subprocess, sys


def test_replay_C15_a2c53cbfa177():
    r = subprocess.run(['/verif/check', 'C15', '--replay', '/verif/replays/C15-a2c53cbfa177.json'])
    assert r.returncode == 0, 'property violated by the recorded execution'
