"""Replays one recorded execution for C04 without the explorer."""
import subprocess, sys


def test_replay_C04_2d7b7927a950():
    r = subprocess.run(['/verif/check', 'C04', '--replay', '/verif/replays/C04-2d7b7927a950.json'])
    assert r.returncode == 0, 'property violated by the recorded execution'
