"""Replays one recorded execution for C04 without the explorer."""
import subprocess, sys


def test_replay_C04_d66143a1d5ca():
    r = subprocess.run(['/verif/check', 'C04', '--replay', '/verif/replays/C04-d66143a1d5ca.json'])
    assert r.returncode == 0, 'property violated by the recorded execution'
