"""Replays one recorded execution for C14 without the explorer."""
import subprocess, sys


def test_replay_C14_8aa9a33eea3d():
    r = subprocess.run(['/verif/check', 'C14', '--replay', '/verif/replays/C14-8aa9a33eea3d.json'])
    assert r.returncode == 0, 'property violated by the recorded execution'
