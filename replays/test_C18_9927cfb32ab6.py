"""Replays one recorded execution for C18 without the explorer."""
import subprocess, sys


def test_replay_C18_9927cfb32ab6():
    r = subprocess.run(['/verif/check', 'C18', '--replay', '/verif/replays/C18-9927cfb32ab6.json'])
    assert r.returncode == 0, 'property violated by the recorded execution'
