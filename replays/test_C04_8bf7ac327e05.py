"""Replays one recorded execution for C04 without the explorer."""
import subprocess, sys


def test_replay_C04_8bf7ac327e05():
    r = subprocess.run(['/verif/check', 'C04', '--replay', '/verif/replays/C04-8bf7ac327e05.json'])
    assert r.returncode == 0, 'property violated by the recorded execution'
