"""Replays one recorded execution for C10 without the explorer."""
import subprocess, sys


def test_replay_C10_55624b0a95cf():
    r = subprocess.run(['/verif/check', 'C10', '--replay', '/verif/replays/C10-55624b0a95cf.json'])
    assert r.returncode == 0, 'property violated by the recorded execution'
