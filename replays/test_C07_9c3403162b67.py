"""Replays one recorded execution for C07 without the explorer."""
import subprocess, sys


def test_replay_C07_9c3403162b67():
    r = subprocess.run(['/verif/check', 'C07', '--replay', '/verif/replays/C07-9c3403162b67.json'])
    assert r.returncode == 0, 'property violated by the recorded execution'
