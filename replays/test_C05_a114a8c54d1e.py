"""Replays one recorded execution for C05 without the explorer."""
import subprocess, sys


def test_replay_C05_a114a8c54d1e():
    r = subprocess.run(['/verif/check', 'C05', '--replay', '/verif/replays/C05-a114a8c54d1e.json'])
    assert r.returncode == 0, 'property violated by the recorded execution'
