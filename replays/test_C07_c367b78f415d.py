"""Replays one recorded execution for C07 without the explorer."""
import subprocess, sys


def test_replay_C07_c367b78f415d():
    r = subprocess.run(['/verif/check', 'C07', '--replay', '/verif/replays/C07-c367b78f415d.json'])
    assert r.returncode == 0, 'property violated by the recorded execution'
