"""Replays one recorded execution for C18 without the explorer."""
import subprocess, sys


def test_replay_C18_a094215f784b():
    r = subprocess.run(['/verif/check', 'C18', '--replay', '/verif/replays/C18-a094215f784b.json'])
    assert r.returncode == 0, 'property violated by the recorded execution'
