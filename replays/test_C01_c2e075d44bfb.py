"""Replays one recorded execution for C01 without the explorer."""
import subprocess, sys


def test_replay_C01_c2e075d44bfb():
    r = subprocess.run(['/verif/check', 'C01', '--replay', '/verif/replays/C01-c2e075d44bfb.json'])
    assert r.returncode == 0, 'property violated by the recorded execution'
