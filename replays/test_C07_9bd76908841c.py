"""Replays one recorded execution for C07 without the explorer."""
import subprocess, sys


def test_replay_C07_9bd76908841c():
    r = subprocess.run(['/verif/check', 'C07', '--replay', '/verif/replays/C07-9bd76908841c.json'])
    assert r.returncode == 0, 'property violated by the recorded execution'
