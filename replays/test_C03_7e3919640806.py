"""Replays one recorded execution for C03 without the explorer."""
import subprocess, sys


def test_replay_C03_7e3919640806():
    r = subprocess.run(['/verif/check', 'C03', '--replay', '/verif/replays/C03-7e3919640806.json'])
    assert r.returncode == 0, 'property violated by the recorded execution'
