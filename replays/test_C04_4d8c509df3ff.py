"""Replays one recorded execution for C04 without the explorer."""
import subprocess, sys


def test_replay_C04_4d8c509df3ff():
    r = subprocess.run(['/verif/check', 'C04', '--replay', '/verif/replays/C04-4d8c509df3ff.json'])
    assert r.returncode == 0, 'property violated by the recorded execution'
