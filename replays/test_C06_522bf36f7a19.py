"""Replays one recorded execution for C06 without the explorer."""
import subprocess, sys


def test_replay_C06_522bf36f7a19():
    r = subprocess.run(['/verif/check', 'C06', '--replay', '/verif/replays/C06-522bf36f7a19.json'])
    assert r.returncode == 0, 'property violated by the recorded execution'
