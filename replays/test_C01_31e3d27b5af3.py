"""Replays one recorded execution for C01 without the explorer."""
import subprocess, sys


def test_replay_C01_31e3d27b5af3():
    r = subprocess.run(['/verif/check', 'C01', '--replay', '/verif/replays/C01-31e3d27b5af3.json'])
    assert r.returncode == 0, 'property violated by the recorded execution'
