"""Replays one recorded execution for C16 without the explorer."""
import subprocess, sys


def test_replay_C16_e0dd8b223c46():
    r = subprocess.run(['/verif/check', 'C16', '--replay', '/verif/replays/C16-e0dd8b223c46.json'])
    assert r.returncode == 0, 'property violated by the recorded execution'
