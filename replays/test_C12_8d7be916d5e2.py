"""Replays one recorded execution for C12 without the explorer."""
import subprocess, sys


def test_replay_C12_8d7be916d5e2():
    r = subprocess.run(['/verif/check', 'C12', '--replay', '/verif/replays/C12-8d7be916d5e2.json'])
    assert r.returncode == 0, 'property violated by the recorded execution'
