"""Replays one recorded execution for C04 without the explorer."""
import subprocess, sys


def test_replay_C04_0821ab219448():
    r = subprocess.run(['/verif/check', 'C04', '--replay', '/verif/replays/C04-0821ab219448.json'])
    assert r.returncode == 0, 'property violated by the recorded execution'
