"""Replays one recorded execution for C14 without the explorer."""
import subprocess, sys


def test_replay_C14_31c610f8616c():
    r = subprocess.run(['/verif/check', 'C14', '--replay', '/verif/replays/C14-31c610f8616c.json'])
    assert r.returncode == 0, 'property violated by the recorded execution'
