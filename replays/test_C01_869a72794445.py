"""Replays one recorded execution for C01 without the explorer."""
import subprocess, sys


def test_replay_C01_869a72794445():
    r = subprocess.run(['/verif/check', 'C01', '--replay', '/verif/replays/C01-869a72794445.json'])
    assert r.returncode == 0, 'property violated by the recorded execution'
