"""Replays one recorded execution for C15 without the explorer."""
import subprocess, sys


def test_replay_C15_81057bc3618c():
    r = subprocess.run(['/verif/check', 'C15', '--replay', '/verif/replays/C15-81057bc3618c.json'])
    assert r.returncode == 0, 'property violated by the recorded execution'
