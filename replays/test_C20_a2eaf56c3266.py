"""Replays one recorded execution for C20 without the explorer."""
import subprocess, sys


def test_replay_C20_a2eaf56c3266():
    r = subprocess.run(['/verif/check', 'C20', '--replay', '/verif/replays/C20-a2eaf56c3266.json'])
    assert r.returncode == 0, 'property violated by the recorded execution'
