"""Replays one recorded execution for C02 without the explorer."""
import subprocess, sys


def test_replay_C02_84d94ff2c5cd():
    r = subprocess.run(['/verif/check', 'C02', '--replay', '/verif/replays/C02-84d94ff2c5cd.json'])
    assert r.returncode == 0, 'property violated by the recorded execution'
