"""Replays one recorded execution for C11 without the explorer."""
import subprocess, sys


def test_replay_C11_edb73f10f9a7():
    r = subprocess.run(['/verif/check', 'C11', '--replay', '/verif/replays/C11-edb73f10f9a7.json'])
    assert r.returncode == 0, 'property violated by the recorded execution'
