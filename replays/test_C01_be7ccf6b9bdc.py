"""Replays one recorded execution for C01 without the explorer."""
import subprocess, sys


def test_replay_C01_be7ccf6b9bdc():
    r = subprocess.run(['/verif/check', 'C01', '--replay', '/verif/replays/C01-be7ccf6b9bdc.json'])
    assert r.returncode == 0, 'property violated by the recorded execution'
