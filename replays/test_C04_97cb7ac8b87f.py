"""Replays one recorded execution for C04 without the explorer."""
import subprocess, sys


def test_replay_C04_97cb7ac8b87f():
    r = subprocess.run(['/verif/check', 'C04', '--replay', '/verif/replays/C04-97cb7ac8b87f.json'])
    assert r.returncode == 0, 'property violated by the recorded execution'
