"""Replays one recorded execution for C07 without the explorer."""
import subprocess, sys


def test_replay_C07_70d32c03192c():
    r = subprocess.run(['/verif/check', 'C07', '--replay', '/verif/replays/C07-70d32c03192c.json'])
    assert r.returncode == 0, 'property violated by the recorded execution'
