"""Replays one recorded execution for C09 without the explorer."""
import subprocess, sys


def test_replay_C09_c16c26ed6700():
    r = subprocess.run(['/verif/check', 'C09', '--replay', '/verif/replays/C09-c16c26ed6700.json'])
    assert r.returncode == 0, 'property violated by the recorded execution'
