"""Replays one recorded execution for C06 without the explorer."""
import subprocess, sys


def test_replay_C06_127f7fc9e65f():
    r = subprocess.run(['/verif/check', 'C06', '--replay', '/verif/replays/C06-127f7fc9e65f.json'])
    assert r.returncode == 0, 'property violated by the recorded execution'
