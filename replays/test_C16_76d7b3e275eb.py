"""Replays one recorded execution for C16 without the explorer."""
import subprocess, sys


def test_replay_C16_76d7b3e275eb():
    r = subprocess.run(['/verif/check', 'C16', '--replay', '/verif/replays/C16-76d7b3e275eb.json'])
    assert r.returncode == 0, 'property violated by the recorded execution'
