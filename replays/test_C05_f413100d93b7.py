"""Replays one recorded execution for C05 without the explorer."""
import subprocess, sys


def test_replay_C05_f413100d93b7():
    r = subprocess.run(['/verif/check', 'C05', '--replay', '/verif/replays/C05-f413100d93b7.json'])
    assert r.returncode == 0, 'property violated by the recorded execution'
