"""Replays one recorded execution for C08 without the explorer."""
import subprocess, sys


def test_replay_C08_07518931c456():
    r = subprocess.run(['/verif/check', 'C08', '--replay', '/verif/replays/C08-07518931c456.json'])
    assert r.returncode == 0, 'property violated by the recorded execution'
