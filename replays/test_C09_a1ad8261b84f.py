"""Replays one recorded execution for C09 without the explorer."""
import subprocess, sys


def test_replay_C09_a1ad8261b84f():
    r = subprocess.run(['/verif/check', 'C09', '--replay', '/verif/replays/C09-a1ad8261b84f.json'])
    assert r.returncode == 0, 'property violated by the recorded execution'
