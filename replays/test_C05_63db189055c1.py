"""Replays one recorded execution for C05 without the explorer."""
import subprocess, sys


def test_replay_C05_63db189055c1():
    r = subprocess.run(['/verif/check', 'C05', '--replay', '/verif/replays/C05-63db189055c1.json'])
    assert r.returncode == 0, 'property violated by the recorded execution'
