"""Replays one recorded execution for C11 without the explorer."""
import subprocess, sys


def test_replay_C11_a86c05c82bf0():
    r = subprocess.run(['/verif/check', 'C11', '--replay', '/verif/replays/C11-a86c05c82bf0.json'])
    assert r.returncode == 0, 'property violated by the recorded execution'
