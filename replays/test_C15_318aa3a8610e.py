"""Replays one recorded execution for C15 without the explorer."""
import subprocess, sys


def test_replay_C15_318aa3a8610e():
    r = subprocess.run(['/verif/check', 'C15', '--replay', '/verif/replays/C15-318aa3a8610e.json'])
    assert r.returncode == 0, 'property violated by the recorded execution'
