"""Replays one recorded execution for C15 without the explorer."""
import subprocess, sys


def test_replay_C15_84fd3f6b149d():
    r = subprocess.run(['/verif/check', 'C15', '--replay', '/verif/replays/C15-84fd3f6b149d.json'])
    assert r.returncode == 0, 'property violated by the recorded execution'
