"""Replays one recorded execution for C03 without the explorer."""
import subprocess, sys


def test_replay_C03_9a3b6661961d():
    r = subprocess.run(['/verif/check', 'C03', '--replay', '/verif/replays/C03-9a3b6661961d.json'])
    assert r.returncode == 0, 'property violated by the recorded execution'
