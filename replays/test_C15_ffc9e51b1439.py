"""Replays one recorded execution for C15 without the explorer."""
import subprocess, sys


def test_replay_C15_ffc9e51b1439():
    r = subprocess.run(['/verif/check', 'C15', '--replay', '/verif/replays/C15-ffc9e51b1439.json'])
    assert r.returncode == 0, 'property violated by the recorded execution'
