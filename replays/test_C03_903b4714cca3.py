"""Replays one recorded execution for C03 without the explorer."""
import subprocess, sys


def test_replay_C03_903b4714cca3():
    r = subprocess.run(['/verif/check', 'C03', '--replay', '/verif/replays/C03-903b4714cca3.json'])
    assert r.returncode == 0, 'property violated by the recorded execution'
