"""Bounded exhaustive exploration (model checking) of comb_spec_searcher.

See /verif/DESIGN.md.  Everything here imports the library from /repo (the
editable install of /venv), so each run executes the current working tree.
"""
