"""G-domain: small proper context-free grammars; objects are parse trees, size is
the number of terminal leaves.  Gives products with two or more non-atomic
factors, repeated and permuted factors, one-child unions that change the object,
and universes in which a reverse rule is needed (DESIGN 3.2).

A grammar is a tuple of nonterminals; nonterminal i is a tuple of alternatives; an
alternative is a tuple of symbols; a symbol is a terminal letter (str) or the
index of a nonterminal (int).
"""

from __future__ import annotations

import json
from collections import Counter, defaultdict
from functools import lru_cache
from itertools import combinations, product
from typing import Any, Dict, Iterable, Iterator, List, Optional, Sequence, Tuple

from comb_spec_searcher import (
    CartesianProductStrategy,
    CombinatorialClass,
    CombinatorialObject,
    DisjointUnionStrategy,
    StrategyPack,
    VerificationStrategy,
)
from comb_spec_searcher.exception import InvalidOperationError, StrategyDoesNotApply

Grammar = Tuple[Tuple[Tuple[Any, ...], ...], ...]
INF = 10**9


class Tree(tuple, CombinatorialObject):
    """('N', nonterminal, alternative, children) or ('T', letter)."""

    def size(self) -> int:
        if self[0] == "T":
            return 1
        return sum(ch.size() for ch in self[3])

    def __len__(self) -> int:  # CombinatorialObject requires it; tuple length is not the size
        return tuple.__len__(self)

    def leaves(self) -> str:
        if self[0] == "T":
            return self[1]
        return "".join(ch.leaves() for ch in self[3])


def leaf(letter: str) -> Tree:
    return Tree(("T", letter))


def node(n: int, alt: int, children: Sequence[Tree]) -> Tree:
    return Tree(("N", n, alt, tuple(children)))


# ---------------------------------------------------------------------------
# grammar analysis (plain fixed points)


@lru_cache(maxsize=None)
def min_sizes(g: Grammar) -> Tuple[int, ...]:
    m = [INF] * len(g)
    changed = True
    while changed:
        changed = False
        for i, alts in enumerate(g):
            for alt in alts:
                v = sum(1 if isinstance(s, str) else m[s] for s in alt)
                if v < m[i]:
                    m[i] = v
                    changed = True
    return tuple(m)


@lru_cache(maxsize=None)
def min_stat(g: Grammar, stat: str) -> Tuple[int, ...]:
    """Minimum number of leaves with a letter in `stat`, per nonterminal (INF if unproductive)."""
    m = [INF] * len(g)
    changed = True
    while changed:
        changed = False
        for i, alts in enumerate(g):
            for alt in alts:
                v = sum((1 if s in stat else 0) if isinstance(s, str) else m[s] for s in alt)
                if v < m[i]:
                    m[i] = v
                    changed = True
    return tuple(m)


@lru_cache(maxsize=None)
def tree_counts(g: Grammar) -> Tuple[int, ...]:
    """Number of parse trees per nonterminal in {0, 1, 2 (= several)} (least fixed point, saturating)."""
    c = [0] * len(g)
    changed = True
    while changed:
        changed = False
        for i, alts in enumerate(g):
            tot = 0
            for alt in alts:
                p = 1
                for s in alt:
                    p *= 1 if isinstance(s, str) else c[s]
                    p = min(p, 2)
                tot = min(tot + p, 2)
            if tot > c[i]:
                c[i] = tot
                changed = True
    return tuple(c)


def is_proper(g: Grammar) -> bool:
    """Finitely many parse trees of every size: no cycle N =>+ N that consumes no terminal."""
    ms = min_sizes(g)
    nullable = {i for i, v in enumerate(ms) if v == 0}
    edges = defaultdict(set)
    for i, alts in enumerate(g):
        for alt in alts:
            for k, s in enumerate(alt):
                if isinstance(s, int):
                    rest = alt[:k] + alt[k + 1 :]
                    if all(isinstance(x, int) and x in nullable for x in rest):
                        edges[i].add(s)
    # acyclic?
    state = {}

    def visit(u):
        state[u] = 1
        for v in edges[u]:
            if state.get(v) == 1:
                return False
            if v not in state and not visit(v):
                return False
        state[u] = 2
        return True

    return all(visit(u) for u in range(len(g)) if u not in state)


_TREES: Dict[Tuple, List[Tree]] = {}


def trees(g: Grammar, sym, n: int) -> List[Tree]:
    """All parse trees of symbol `sym` (letter, nonterminal index, or ('A', nt, alt)) with n leaves."""
    key = (g, sym, n)
    r = _TREES.get(key)
    if r is not None:
        return r
    if len(_TREES) > 200000:
        _TREES.clear()
    if isinstance(sym, str):
        res = [leaf(sym)] if n == 1 else []
    elif isinstance(sym, int):
        res = []
        for ai in range(len(g[sym])):
            res.extend(trees(g, ("A", sym, ai), n))
    else:
        _, nt, ai = sym
        alt = g[nt][ai]
        ms = min_sizes(g)
        mins = [1 if isinstance(s, str) else ms[s] for s in alt]
        res = []
        if all(m < INF for m in mins) and sum(mins) <= n:

            def rec(k, remaining, acc):
                if k == len(alt):
                    if remaining == 0:
                        res.append(node(nt, ai, acc))
                    return
                rest_min = sum(mins[k + 1 :])
                s = alt[k]
                hi = remaining - rest_min
                if isinstance(s, str):
                    sizes = [1] if 1 <= hi else []
                else:
                    sizes = range(mins[k], hi + 1)
                for sz in sizes:
                    for t in trees(g, s, sz):
                        rec(k + 1, remaining - sz, acc + [t])

            if not alt:
                if n == 0:
                    res.append(node(nt, ai, []))
            else:
                rec(0, n, [])
    _TREES[key] = res
    return res


# ---------------------------------------------------------------------------
# classes


class G(CombinatorialClass[Tree]):
    """kind 'N' (ref = nonterminal), 'A' (ref = (nonterminal, alternative)), 'T' (ref = letter)."""

    def __init__(self, grammar: Grammar, kind: str, ref, stats: Iterable[str] = ()):
        self.grammar = grammar
        self.kind = kind
        self.ref = tuple(ref) if isinstance(ref, (list, tuple)) else ref
        self.stats = tuple(sorted("".join(sorted(set(s))) for s in stats))
        self._hash = hash((self.grammar, self.kind, self.ref, self.stats))

    def sym(self):
        if self.kind == "N":
            return self.ref
        if self.kind == "T":
            return self.ref
        return ("A", self.ref[0], self.ref[1])

    def key(self):
        return (self.grammar, self.kind, self.ref, self.stats)

    def __eq__(self, other) -> bool:
        if not isinstance(other, G):
            return NotImplemented
        return self.key() == other.key()

    def __hash__(self) -> int:
        return self._hash

    def sid(self) -> str:
        gs = ";".join("|".join("".join(str(s) for s in alt) or "e" for alt in alts) for alts in self.grammar)
        r = self.ref if self.kind != "A" else f"{self.ref[0]}.{self.ref[1]}"
        return f"G[{gs}]{self.kind}{r}" + (f"[{','.join(self.stats)}]" if self.stats else "")

    def __repr__(self) -> str:
        return self.sid()

    def __str__(self) -> str:
        return self.sid()

    def with_(self, kind, ref) -> "G":
        return G(self.grammar, kind, ref, self.stats)

    def to_jsonable(self) -> dict:
        d = super().to_jsonable()
        d.update(grammar=[[list(alt) for alt in alts] for alts in self.grammar], kind=self.kind,
                 ref=list(self.ref) if isinstance(self.ref, tuple) else self.ref, stats=list(self.stats))
        return d

    @classmethod
    def from_dict(cls, d: dict) -> "G":
        g = tuple(tuple(tuple(alt) for alt in alts) for alts in d["grammar"])
        ref = tuple(d["ref"]) if isinstance(d["ref"], list) else d["ref"]
        return cls(g, d["kind"], ref, d["stats"])

    # enumeration -------------------------------------------------------------
    def _min(self, table: Tuple[int, ...], letter_value) -> int:
        if self.kind == "T":
            return letter_value(self.ref)
        if self.kind == "N":
            return table[self.ref]
        alt = self.grammar[self.ref[0]][self.ref[1]]
        return min(INF, sum(letter_value(s) if isinstance(s, str) else table[s] for s in alt))

    def is_empty(self) -> bool:
        return self._min(min_sizes(self.grammar), lambda s: 1) >= INF

    def minimum_size_of_object(self) -> int:
        return self._min(min_sizes(self.grammar), lambda s: 1)

    def number_of_objects_saturated(self) -> int:
        if self.kind == "T":
            return 1
        c = tree_counts(self.grammar)
        if self.kind == "N":
            return c[self.ref]
        p = 1
        for s in self.grammar[self.ref[0]][self.ref[1]]:
            p = min(2, p * (1 if isinstance(s, str) else c[s]))
        return p

    def is_atom(self) -> bool:
        return self.number_of_objects_saturated() == 1

    @property
    def extra_parameters(self) -> Tuple[str, ...]:
        return tuple("k_" + s for s in self.stats)

    def get_parameters(self, obj: Tree) -> Tuple[int, ...]:
        lv = obj.leaves()
        return tuple(sum(1 for ch in lv if ch in s) for s in self.stats)

    def get_minimum_value(self, parameter: str) -> int:
        stat = parameter[2:]
        assert stat in self.stats
        return self._min(min_stat(self.grammar, stat), lambda s: 1 if s in stat else 0)

    def possible_parameters(self, n: int) -> Iterator[Dict[str, int]]:
        seen = set()
        for t in trees(self.grammar, self.sym(), n):
            p = self.get_parameters(t)
            if p not in seen:
                seen.add(p)
                yield dict(zip(self.extra_parameters, p))

    def objects_of_size(self, n: int, **parameters: int) -> Iterator[Tree]:
        want = tuple(parameters[k] for k in self.extra_parameters) if parameters else None
        for t in trees(self.grammar, self.sym(), n):
            if want is None or self.get_parameters(t) == want:
                yield t


def brute_terms(c: G, n: int) -> Counter:
    cnt: Counter = Counter()
    for t in trees(c.grammar, c.sym(), n):
        lv = t.leaves()
        cnt[tuple(sum(1 for ch in lv if ch in s) for s in c.stats)] += 1
    return cnt


def brute_empty(c: G) -> bool:
    return c.is_empty()


def sym_class(c: G, s) -> G:
    return c.with_("T", s) if isinstance(s, str) else c.with_("N", s)


@lru_cache(maxsize=None)
def reachable_letters(g: Grammar, sym) -> str:
    """Terminal letters that can occur in a parse tree of the symbol."""
    if isinstance(sym, str):
        return sym
    seen = set()
    letters = set()
    todo = [sym]
    while todo:
        n = todo.pop()
        if n in seen:
            continue
        seen.add(n)
        for alt in g[n]:
            for s in alt:
                if isinstance(s, str):
                    letters.add(s)
                else:
                    todo.append(s)
    return "".join(sorted(letters))


def restricted(c: G, child: G) -> Tuple[G, Dict[str, str]]:
    """The child with every statistic restricted to the letters that can occur in it
    (statistics that become empty are dropped, equal ones merged) and the parameter map."""
    letters = reachable_letters(c.grammar, child.ref if child.kind != "A" else child.ref[0])
    if child.kind == "A":
        alt = c.grammar[child.ref[0]][child.ref[1]]
        letters = "".join(sorted(set("".join(reachable_letters(c.grammar, s) for s in alt))))
    mapping: Dict[str, str] = {}
    stats: List[str] = []
    for s in c.stats:
        r = "".join(ch for ch in s if ch in letters)
        if not r:
            continue
        mapping["k_" + s] = "k_" + r
        if r not in stats:
            stats.append(r)
    return G(child.grammar, child.kind, child.ref, stats), mapping


def identity_map(c: G) -> Dict[str, str]:
    return {p: p for p in c.extra_parameters}


class _JsonMixin:
    def to_jsonable(self) -> dict:
        return super().to_jsonable()  # type: ignore[misc]

    @classmethod
    def from_dict(cls, d: dict):
        d = dict(d)
        for k in ("class_module", "strategy_class"):
            d.pop(k, None)
        return cls(**d)

    def __repr__(self) -> str:
        return f"{type(self).__name__}()"


class Unfold(_JsonMixin, DisjointUnionStrategy[G, Tree]):
    """nonterminal = disjoint union of its alternatives (some may be empty).
    skip: nonterminals to which the strategy does not apply (their alternatives stay hidden
    from the search, so such a class can only be specified through other rules)."""

    def __init__(self, skip=(), **kw):
        self.skip = tuple(sorted(skip))
        super().__init__(**kw)

    def to_jsonable(self) -> dict:
        d = super().to_jsonable()
        d["skip"] = list(self.skip)
        return d

    def __repr__(self) -> str:
        return f"Unfold(skip={self.skip})" if self.skip else "Unfold()"

    def decomposition_function(self, c: G):
        if c.kind != "N" or c.ref in self.skip:
            return None
        return tuple(c.with_("A", (c.ref, i)) for i in range(len(c.grammar[c.ref])))

    def extra_parameters(self, c: G, children=None):
        if children is None:
            children = self.decomposition_function(c)
        return tuple(identity_map(c) for _ in children)

    def formal_step(self) -> str:
        return "unfold the nonterminal"

    def forward_map(self, c: G, obj: Tree, children=None):
        if children is None:
            children = self.decomposition_function(c)
        return tuple(obj if i == obj[2] else None for i in range(len(children)))

    def backward_map(self, c: G, objs, children=None):
        idx = [i for i, o in enumerate(objs) if o is not None]
        if len(idx) != 1:
            raise ValueError(f"a union part tuple has exactly one entry: {objs}")
        i = idx[0]
        if objs[i][0] != "N" or objs[i][2] != i:
            raise ValueError(f"parse tree of alternative {objs[i][2]} handed back at position {i}")
        yield objs[i]


class Unit(_JsonMixin, DisjointUnionStrategy[G, Tree]):
    """alternative with a single symbol = that symbol's class (the object is unwrapped)."""

    def __init__(self, **kw):
        super().__init__(**kw)

    def decomposition_function(self, c: G):
        if c.kind != "A":
            return None
        alt = c.grammar[c.ref[0]][c.ref[1]]
        if len(alt) != 1:
            return None
        return (sym_class(c, alt[0]),)

    def extra_parameters(self, c: G, children=None):
        return (identity_map(c),)

    def formal_step(self) -> str:
        return "unit alternative"

    def forward_map(self, c: G, obj: Tree, children=None):
        return (obj[3][0],)

    def backward_map(self, c: G, objs, children=None):
        yield node(c.ref[0], c.ref[1], [objs[0]])


class Factor(_JsonMixin, CartesianProductStrategy[G, Tree]):
    """alternative with >= 2 symbols = product of its symbols.  allow_one=True also
    factors one-symbol alternatives (a one-factor product; only used by the dedicated
    sub-run for the known finding D10, never in the default alphabets)."""

    def __init__(self, allow_one: bool = False, norm: bool = False, **kw):
        self.allow_one = allow_one
        self.norm = norm  # factors carry statistics restricted to the letters they can contain
        super().__init__(**kw)

    def to_jsonable(self) -> dict:
        d = super().to_jsonable()
        d["allow_one"] = self.allow_one
        d["norm"] = self.norm
        return d

    def __repr__(self) -> str:
        args = [f"{k}=True" for k in ("allow_one", "norm") if getattr(self, k)]
        return f"Factor({', '.join(args)})"

    def decomposition_function(self, c: G):
        if c.kind != "A" or c.is_empty():
            return None
        alt = c.grammar[c.ref[0]][c.ref[1]]
        if len(alt) < (1 if self.allow_one else 2):
            return None
        children = tuple(sym_class(c, s) for s in alt)
        if self.norm:
            children = tuple(restricted(c, ch)[0] for ch in children)
        return children

    def extra_parameters(self, c: G, children=None):
        if children is None:
            children = self.decomposition_function(c)
        if self.norm:
            alt = c.grammar[c.ref[0]][c.ref[1]]
            return tuple(restricted(c, sym_class(c, s))[1] for s in alt)
        return tuple(identity_map(c) for _ in children)

    def formal_step(self) -> str:
        return "factor the alternative"

    def forward_map(self, c: G, obj: Tree, children=None):
        return tuple(obj[3])

    def backward_map(self, c: G, objs, children=None):
        yield node(c.ref[0], c.ref[1], list(objs))


class GAtom(VerificationStrategy[G, Tree]):
    """Terminals and ε-alternatives."""

    def __init__(self):
        super().__init__(ignore_parent=True)

    def verified(self, c: G) -> bool:
        if c.kind == "T":
            return True
        return c.kind == "A" and len(c.grammar[c.ref[0]][c.ref[1]]) == 0

    def formal_step(self) -> str:
        return "terminal or empty alternative"

    def _obj(self, c: G) -> Tree:
        return leaf(c.ref) if c.kind == "T" else node(c.ref[0], c.ref[1], [])

    def get_terms(self, c: G, n: int):
        o = self._obj(c)
        return Counter([c.get_parameters(o)]) if n == o.size() else Counter()

    def get_objects(self, c: G, n: int):
        res = defaultdict(list)
        o = self._obj(c)
        if n == o.size():
            res[c.get_parameters(o)].append(o)
        return res

    def get_genf(self, c: G, funcs=None):
        import sympy

        o = self._obj(c)
        res = sympy.var("x") ** o.size()
        for name, v in zip(c.extra_parameters, c.get_parameters(o)):
            res *= sympy.var(name) ** v
        return res

    def random_sample_object_of_size(self, c: G, n: int, **parameters: int):
        o = self._obj(c)
        if n != o.size():
            raise ValueError("Invalid size")
        return o

    def pack(self, c: G) -> StrategyPack:
        raise InvalidOperationError("no pack for atoms")

    def to_jsonable(self) -> dict:
        d = super().to_jsonable()
        d.pop("ignore_parent")
        return d

    @classmethod
    def from_dict(cls, d: dict) -> "GAtom":
        return cls()

    def __repr__(self) -> str:
        return "GAtom()"

    def __str__(self) -> str:
        return "verify terminals"


class GVerify(VerificationStrategy[G, Tree]):
    """Verifies the given alternative classes (n, i) and nonterminal classes (n,) by plain
    enumeration.  pack_name: the pack offered for expanding them (none by default)."""

    def __init__(self, alts=(), ignore_parent: bool = False, pack_name: Optional[str] = None):
        self.alts = tuple(sorted(tuple(a) for a in alts))
        self.pack_name = pack_name
        super().__init__(ignore_parent=ignore_parent)

    def verified(self, c: G) -> bool:
        if c.is_empty():
            return False
        if c.kind == "A":
            return tuple(c.ref) in self.alts
        return c.kind == "N" and (c.ref,) in self.alts

    def formal_step(self) -> str:
        return f"verified alternative {self.alts}"

    def get_terms(self, c: G, n: int):
        return brute_terms(c, n)

    def get_objects(self, c: G, n: int):
        res = defaultdict(list)
        for t in trees(c.grammar, c.sym(), n):
            res[c.get_parameters(t)].append(t)
        return res

    def get_genf(self, c: G, funcs=None):
        raise NotImplementedError("no closed form for a class verified by enumeration")

    def random_sample_object_of_size(self, c: G, n: int, **parameters: int):
        import comb_spec_searcher.strategies.rule as rl

        return rl.random.choice(list(c.objects_of_size(n, **parameters)))

    def pack(self, c: G) -> StrategyPack:
        if self.pack_name is None:
            raise InvalidOperationError("no pack")
        return g_pack(self.pack_name)

    def to_jsonable(self) -> dict:
        d = super().to_jsonable()
        d["alts"] = [list(a) for a in self.alts]
        d["pack_name"] = self.pack_name
        return d

    @classmethod
    def from_dict(cls, d: dict) -> "GVerify":
        return cls(tuple(tuple(a) for a in d["alts"]), ignore_parent=d.get("ignore_parent", False), pack_name=d.get("pack_name"))

    def __repr__(self) -> str:
        return f"GVerify({self.alts})" if self.pack_name is None else f"GVerify({self.alts}, pack={self.pack_name})"

    def __str__(self) -> str:
        return self.formal_step()


from comb_spec_searcher import StrategyFactory as _StrategyFactory  # noqa: E402


class GContext(_StrategyFactory[G]):
    """For a nonterminal class, yields the factoring rule of every alternative in which the
    nonterminal occurs (rules whose parent differs from the expanded class)."""

    def __call__(self, c: G):
        if c.kind != "N":
            return
        for j, alts in enumerate(c.grammar):
            for k, alt in enumerate(alts):
                if c.ref in alt and len(alt) >= 2:
                    yield Factor()(c.with_("A", (j, k)))

    def __str__(self) -> str:
        return "context factory"

    def __repr__(self) -> str:
        return "GContext()"

    @classmethod
    def from_dict(cls, d: dict) -> "GContext":
        return cls()


def g_pack(name: str = "g") -> StrategyPack:
    if name.startswith("grev"):
        # "grev|skip=1,2|ver=3.0" : hidden nonterminals, alternatives verified by enumeration
        #  verp=1|vp=grev/skip=3/ctx=0 : classes verified with the pack vp on offer ('/' for '|');
        #  ctx=0 : without the context factory
        opts = dict(x.split("=", 1) for x in name.split("|")[1:])
        skip = tuple(int(x) for x in opts.get("skip", "").split(",") if x)

        def refs(text):
            return tuple(tuple(int(y) for y in x.split(".")) for x in text.split(",") if x)

        ver = [GAtom(), GVerify(refs(opts.get("ver", "")))]
        if opts.get("verp"):
            ver.append(GVerify(refs(opts["verp"]), pack_name=opts["vp"].replace("/", "|")))
        exp = [Unfold(skip=skip), Factor(), Unit()]
        if opts.get("ctx", "1") != "0":
            exp.append(GContext())
        return StrategyPack(
            initial_strats=[],
            inferral_strats=[],
            expansion_strats=[exp],
            ver_strats=ver,
            name=name,
        )
    feats = name.split("+")
    return StrategyPack(
        initial_strats=[],
        inferral_strats=[],
        expansion_strats=(
            [[Unfold(), Factor(allow_one=True)]]
            if "onefactor" in feats
            else [[Unfold(), Factor(), Unit()]]
            if "split" not in feats
            else [[Unfold()], [Factor(), Unit()]]
        ),
        ver_strats=[] if "nover" in feats else [GAtom()],
        name=name,
        iterative="iter" in feats,
    )


def g_strategies() -> List[Any]:
    return [Unfold(), Factor(), Unit(), Factor(norm=True)]


# ---------------------------------------------------------------------------
# grammar families


def _alternatives(symbols: Sequence, max_len: int) -> List[Tuple]:
    res: List[Tuple] = []
    for l in range(max_len + 1):
        res.extend(product(symbols, repeat=l))
    return res


def reachable(g: Grammar) -> bool:
    seen = {0}
    todo = [0]
    while todo:
        u = todo.pop()
        for alt in g[u]:
            for s in alt:
                if isinstance(s, int) and s not in seen:
                    seen.add(s)
                    todo.append(s)
    return len(seen) == len(g)


def one_factor_products(g: Grammar) -> bool:
    return False


@lru_cache(maxsize=None)
def reverse_universes() -> List[Tuple[Grammar, str, bool]]:
    """(grammar, pack name, genuine specification exists) for universes in which the start
    class R = N0 -> N1 b needs the class B = N1, whose alternatives are hidden: B is only
    available as the quotient P / C of the verified alternative P = N3 -> N1 N2 (C = N2).
    With C hidden as well the two quotient rules rely on each other and nothing exists."""
    shapes = [
        (("a", 1), ()),          # X -> a X | e
        (("a", "a", 1), ("a",)),  # X -> a a X | a
        ((1, "a"), ("b",)),      # X -> X a | b   (left recursive; index patched below)
        (("a",), ("b", "b")),    # finite
        (("a", "a", "a", 1), ("a", "a", "a")),  # minimum size 3: quotient rules with shifts of magnitude 3
    ]

    def nt(shape, idx):
        return tuple(tuple(idx if s == 1 else s for s in alt) for alt in shape)

    res = []
    for s1 in shapes:
        for s2 in shapes:
            # R -> B b | P   (P occurs as a child, so it is looked at and verified)
            g: Grammar = (((1, "b"), (3,)), nt(s1, 1), nt(s2, 2), ((1, 2),))
            if not is_proper(g):
                continue
            res.append((g, "grev|skip=1|ver=3.0", True))
            res.append((g, "grev|skip=1,2|ver=3.0", False))
    return res


@lru_cache(maxsize=None)
def expand_universes() -> List[Tuple[Grammar, str]]:
    """(grammar, pack name) for universes in which a verified class V that offers a pack can only
    be expanded with a reverse rule: V = N1 -> W | X, W = N2 -> a X (verified by enumeration in
    the outer search, so already specified when V is expanded), X = N3 hidden from Unfold and only
    available as W / a after W itself has been expanded again.  Start R = N0 -> V W; in the second
    family R -> V W | B b | P additionally needs a reverse rule of its own (B hidden, P = B C
    verified), so the original specification already contains a ReverseRule."""
    shapes = [
        (("b", 3), ()),          # X -> b X | e
        (("b", "b", 3), ("b",)),  # X -> b b X | b
        (("b",), ("c", "c")),    # finite
    ]
    inner = "grev/skip=3/ctx=0"
    res = []
    for x in shapes:
        g: Grammar = (((1, 2),), ((2,), (3,)), (("a", 3),), x)
        if is_proper(g):
            res.append((g, f"grev|skip=3|ver=2|verp=1|vp={inner}"))
        # R -> V W | B b | P ;  B = N4 hidden, C = N5, P = N6 -> B C verified
        g2: Grammar = (((1, 2), (4, "b"), (6,)), ((2,), (3,)), (("a", 3),), x, (("a", 4), ()), (("c",), ("c", "c")), ((4, 5),))
        if is_proper(g2):
            res.append((g2, f"grev|skip=3,4|ver=2,6.0|verp=1|vp={inner.replace('skip=3', 'skip=3,4')}"))
    return res


@lru_cache(maxsize=None)
def grammars(family: str) -> Tuple[Grammar, ...]:
    """Proper grammars in which every nonterminal is reachable from the first.
    'one'   : 1 nonterminal, <= 2 alternatives of <= 3 symbols over {a, b, N0}
    'two'   : 2 nonterminals, <= 2 alternatives of <= 2 symbols over {a, N0, N1}
    'two_b' : 2 nonterminals, <= 2 alternatives of <= 2 symbols over {a, b, N0, N1}
    'three' : 3 nonterminals, the first two with <= 2 alternatives of <= 2 symbols over {a, N0, N1, N2}, the third with 1
    """
    if family == "two_b_s":  # every 6th grammar of 'two_b' (about 3 000)
        return grammars("two_b")[::6]
    if family == "three_s":  # every 80th grammar of 'three' (about 2 000)
        return grammars("three")[::80]
    res: List[Grammar] = []

    def nts(symbols, max_len, max_alts=2):
        alts = _alternatives(symbols, max_len)
        out = [(a,) for a in alts]
        if max_alts >= 2:
            out += list(combinations(alts, 2))
        return out

    if family == "one":
        for n0 in nts(("a", "b", 0), 3):
            res.append((n0,))
    elif family == "two":
        opts = nts(("a", 0, 1), 2)
        for n0 in opts:
            for n1 in opts:
                res.append((n0, n1))
    elif family == "two_b":
        opts = nts(("a", "b", 0, 1), 2)
        for n0 in opts:
            for n1 in opts:
                res.append((n0, n1))
    elif family == "three":
        opts = nts(("a", 0, 1, 2), 2)
        last = nts(("a", 0, 1, 2), 2, max_alts=1)
        for n0 in opts:
            for n1 in opts:
                for n2 in last:
                    res.append((n0, n1, n2))
    else:
        raise ValueError(family)
    out = []
    for g in res:
        if not reachable(g) or not is_proper(g):
            continue
        if min_sizes(g)[0] >= INF:
            continue  # the start symbol derives nothing: nothing to enumerate
        out.append(g)
    return tuple(out)


# ---------------------------------------------------------------------------
# domain gate


def gate_class(c: G, N: int) -> Optional[str]:
    objs = [t for n in range(N + 1) for t in trees(c.grammar, c.sym(), n)]
    if len(set(objs)) != len(objs):
        return f"duplicate parse trees for {c!r}"
    if any(t.size() != len(t.leaves()) for t in objs):
        return "size is not the number of leaves"
    if c.is_empty() and objs:
        return f"{c!r} is reported empty but has objects"
    if not c.is_empty():
        ms = c.minimum_size_of_object()
        if ms <= N and (not objs or min(t.size() for t in objs) != ms):
            return f"minimum_size_of_object of {c!r}"
        if c.is_atom() and len(objs) > 1:
            return f"{c!r} is_atom but has {len(objs)} objects"
        for s in c.stats:
            vals = [sum(1 for ch in t.leaves() if ch in s) for t in objs]
            mv = c.get_minimum_value("k_" + s)
            if vals and min(vals) < mv:
                return f"get_minimum_value({s}) of {c!r} is not a lower bound"
    return None


def gate_rule(rule, N: int) -> Optional[str]:
    from comb_spec_searcher.strategies.rule import VerificationRule

    c: G = rule.comb_class
    children = rule.children
    for x in (c,) + tuple(children):
        e = gate_class(x, N)
        if e:
            return e
    if isinstance(rule, VerificationRule):
        return None if rule.strategy.verified(c) else "verification of an unverified class"
    strat = rule.strategy
    parent_objs = [t for n in range(N + 1) for t in trees(c.grammar, c.sym(), n)]
    child_sets = [set(t for n in range(N + 1) for t in trees(ch.grammar, ch.sym(), n)) for ch in children]
    if isinstance(strat, DisjointUnionStrategy):
        seen = [set() for _ in children]
        for o in parent_objs:
            img = rule.forward_map(o)
            idx = [i for i, x in enumerate(img) if x is not None]
            if len(idx) != 1:
                return f"union forward_map of {o}"
            i = idx[0]
            if img[i] not in child_sets[i] or img[i] in seen[i]:
                return f"union image of {o} not in child / repeated"
            seen[i].add(img[i])
            if list(rule.backward_map(img)) != [o]:
                return f"union backward_map of {img}"
            if img[i].size() != o.size() or c.get_parameters(o) != children[i].get_parameters(img[i]):
                return "union changes size or parameters"
        for i, s in enumerate(child_sets):
            if s != seen[i]:
                return f"child {children[i]!r} not covered by the union"
    elif isinstance(strat, CartesianProductStrategy):
        if c.is_empty() or any(ch.is_empty() for ch in children):
            return f"product with an empty class {c!r}"
        # (shifts() is library code: judged by C10, not by the gate)
        seen_t = set()
        for o in parent_objs:
            img = tuple(rule.forward_map(o))
            if len(img) != len(children) or any(x not in s for x, s in zip(img, child_sets)):
                return f"product image of {o}"
            if sum(x.size() for x in img) != o.size():
                return "product sizes do not add"
            if list(rule.backward_map(img)) != [o]:
                return "product backward_map"
            ep = strat.extra_parameters(c, children)
            pv = dict(zip(c.extra_parameters, c.get_parameters(o)))
            for pk, val in pv.items():
                tot = 0
                for ch, x, m in zip(children, img, ep):
                    if pk in m:
                        tot += dict(zip(ch.extra_parameters, ch.get_parameters(x)))[m[pk]]
                if tot != val:
                    return f"product parameter {pk} does not add over the factors"
            seen_t.add(img)
        for t in product(*[sorted(s) for s in child_sets]):
            if sum(x.size() for x in t) <= N and t not in seen_t:
                return f"product tuple {t} has no preimage"
    return None
