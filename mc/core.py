"""Runner core: accumulator, parallel map, evidence, known findings, CLI."""

from __future__ import annotations

import hashlib
import importlib
import json
import multiprocessing as mp
import os
import subprocess
import sys
import time
import traceback
from typing import Any, Callable, Dict, Iterable, List, Optional

VERIF = os.path.dirname(os.path.dirname(os.path.abspath(__file__)))
# runs against a scratch tree (tools/mut.py, tools/seed.py) redirect their evidence and replay
# files so that /verif/evidence always describes /repo
EVIDENCE_DIR = os.environ.get("VERIF_EVIDENCE_DIR") or os.path.join(VERIF, "evidence")
REPLAY_DIR = os.environ.get("VERIF_REPLAY_DIR") or os.path.join(VERIF, "replays")
KNOWN_FINDINGS = os.path.join(VERIF, "known_findings.json")
EVIDENCE_SCHEMA = "/root/.vp/EVIDENCE.schema.json"

MAX_SAMPLES = 6
MAX_VIOLATIONS_KEPT = 40  # per worker result, per finding key


class HarnessError(Exception):
    """The harness itself is at fault (replay divergence, oracle self-test, ...)."""


def jdefault(o):
    if isinstance(o, (set, frozenset)):
        return sorted(o, key=repr)
    if isinstance(o, tuple):
        return list(o)
    return repr(o)


class Timeout(Exception):
    """An operation of the library did not finish within its horizon."""


class deadline:
    """with deadline(s): ... raises Timeout in the block after s seconds (wall)."""

    def __init__(self, seconds: float) -> None:
        self.seconds = seconds

    def _fire(self, signum, frame):
        raise Timeout(f"no result within {self.seconds}s")

    def __enter__(self):
        import signal

        self._old = signal.signal(signal.SIGALRM, self._fire)
        # repeating: library code that swallows the exception (`except Exception` around a sympy
        # call inside a retry loop, as in utils.get_solution) is interrupted again every second
        # until the block is left
        signal.setitimer(signal.ITIMER_REAL, self.seconds, 1.0)
        return self

    def __exit__(self, *exc):
        import signal

        signal.setitimer(signal.ITIMER_REAL, 0)
        signal.signal(signal.SIGALRM, self._old)
        return False


class Acc:
    """Mergeable result of (a shard of) an exploration."""

    def __init__(self) -> None:
        self.n: Dict[str, int] = {}
        self.nontrivial: set = set()
        self.outcomes: set = set()
        self.samples: List[Any] = []
        self.violations: List[dict] = []
        self.vcount: Dict[str, int] = {}
        self.caps: List[str] = []
        self.notes: Dict[str, Any] = {}

    def count(self, key: str, k: int = 1) -> None:
        self.n[key] = self.n.get(key, 0) + k

    def nt(self, item) -> None:
        """Record a distinct non-trivial case (hashed)."""
        self.nontrivial.add(item if isinstance(item, int) else hash(item))

    def outcome(self, item) -> None:
        self.outcomes.add(item if isinstance(item, int) else hash(item))

    def sample(self, item) -> None:
        if len(self.samples) < MAX_SAMPLES:
            self.samples.append(item)

    def cap(self, what: str) -> None:
        if what not in self.caps:
            self.caps.append(what)

    def violation(
        self,
        clause: str,
        call_site: str,
        input_id: str,
        detail: str,
        replay: dict,
    ) -> None:
        fkey = f"{clause}@{call_site}"
        self.vcount[fkey] = self.vcount.get(fkey, 0) + 1
        if self.vcount[fkey] <= MAX_VIOLATIONS_KEPT:
            self.violations.append(
                {
                    "fkey": fkey,
                    "clause": clause,
                    "call_site": call_site,
                    "input": input_id,
                    "detail": detail[:2000],
                    "replay": replay,
                }
            )

    def merge(self, other: "Acc") -> None:
        for k, v in other.n.items():
            self.n[k] = self.n.get(k, 0) + v
        self.nontrivial |= other.nontrivial
        self.outcomes |= other.outcomes
        for s in other.samples:
            self.sample(s)
        for k, v in other.vcount.items():
            self.vcount[k] = self.vcount.get(k, 0) + v
        self.violations.extend(other.violations)
        for c in other.caps:
            self.cap(c)
        for k, v in other.notes.items():
            if isinstance(v, (int, float)) and isinstance(self.notes.get(k), (int, float)):
                self.notes[k] = self.notes[k] + v
            elif isinstance(v, list) and isinstance(self.notes.get(k), list):
                self.notes[k] = self.notes[k] + v
            elif isinstance(v, set) and isinstance(self.notes.get(k), set):
                self.notes[k] = self.notes[k] | v
            else:
                self.notes.setdefault(k, v)


def _worker_call(packed):
    func, arg = packed
    try:
        return func(arg)
    except HarnessError as e:  # pragma: no cover
        a = Acc()
        a.notes["harness_error"] = [f"{e}\n{traceback.format_exc()}"]
        return a
    except BaseException as e:  # pragma: no cover
        a = Acc()
        a.notes["harness_error"] = [f"{type(e).__name__}: {e}\n{traceback.format_exc()}"]
        return a


class Ctx:
    def __init__(self, pid: str, tier: str, seed: int, jobs: int) -> None:
        self.pid = pid
        self.tier = tier
        self.seed = seed
        self.jobs = jobs
        self.acc = Acc()
        self.level = "model_checking"
        self.rule = ""
        self.assumptions: List[str] = []
        self.bounds: Dict[str, Any] = {}
        self.exhaustive = True
        self.t0 = time.time()
        self._pool: Optional[mp.pool.Pool] = None

    @property
    def quick(self) -> bool:
        return self.tier == "quick"

    def pool(self):
        if self._pool is None:
            ctx = mp.get_context("fork")
            self._pool = ctx.Pool(self.jobs)
        return self._pool

    def pmap(self, func: Callable[[Any], Acc], items: Iterable[Any], chunksize: int = 1) -> None:
        """Run func over items on the worker pool and merge the Acc results.

        The seed only rotates the order in which shards are handed out; the
        enumeration itself is seed independent."""
        items = self._estimate_subset(list(items))
        if items:
            r = self.seed % len(items)
            items = items[r:] + items[:r]
        if self.jobs <= 1 or len(items) <= 1:
            for it in items:
                self._absorb(_worker_call((func, it)))
            return
        for res in self.pool().imap_unordered(
            _worker_call, [(func, it) for it in items], chunksize
        ):
            self._absorb(res)

    def _estimate_subset(self, items: list) -> list:
        """Developer aid for sizing a tier (never used by a registered command): with
        VERIF_ESTIMATE=k only every k-th shard is run, and the run is marked as capped."""
        k = int(os.environ.get("VERIF_ESTIMATE", "0") or 0)
        if k <= 1 or len(items) <= k:
            return items
        self.acc.cap(f"estimate mode: every {k}-th of {len(items)} shards only")
        return items[::k]

    def pmap_tasks(self, tasks) -> None:
        """Like pmap for heterogeneous tasks [(func, arg), ...]: one pass over the pool, no
        barrier between the phases of a check (stragglers of one phase overlap the next)."""
        tasks = self._estimate_subset(list(tasks))
        if tasks:
            r = self.seed % len(tasks)
            tasks = tasks[r:] + tasks[:r]
        if self.jobs <= 1 or len(tasks) <= 1:
            for t in tasks:
                self._absorb(_worker_call(t))
            return
        for res in self.pool().imap_unordered(_worker_call, tasks, 1):
            self._absorb(res)

    def bfs(self, roots, expand, depth: int, chunk: int = 400, on_level=None) -> int:
        """Level-synchronous breadth-first search with global deduplication.

        roots: list of (key, state) ; expand(list_of_states) -> (Acc, [(key, state), ...])
        is run on the worker pool for chunks of the frontier; `state` must be picklable
        (usually the operation history: workers rebuild the object by replay).
        Returns the number of distinct states seen."""
        seen = set(k for k, _ in roots)
        frontier = [s for _, s in roots]
        level = 0
        while frontier and level < depth:
            chunks = [frontier[i : i + chunk] for i in range(0, len(frontier), chunk)]
            nxt = []
            if self.jobs <= 1 or len(chunks) <= 1:
                results = (_worker_call((expand, c)) for c in chunks)
            else:
                results = self.pool().imap_unordered(_worker_call, [(expand, c) for c in chunks], 1)
            for res in results:
                if isinstance(res, Acc):
                    self._absorb(res)  # harness error
                    continue
                acc, succ = res
                self._absorb(acc)
                for k, st in succ:
                    if k not in seen:
                        seen.add(k)
                        nxt.append(st)
            frontier = nxt
            level += 1
            if on_level is not None:
                on_level(level, len(frontier), len(seen))
        self.bfs_closed = not frontier
        return len(seen)

    def _absorb(self, res: Acc) -> None:
        if "harness_error" in res.notes:
            raise HarnessError("\n".join(res.notes["harness_error"]))
        self.acc.merge(res)

    def close(self) -> None:
        if self._pool is not None:
            self._pool.close()
            self._pool.join()
            self._pool = None


# --------------------------------------------------------------------------
# known findings


def load_known(pid: str) -> List[dict]:
    try:
        with open(KNOWN_FINDINGS) as f:
            data = json.load(f)
    except FileNotFoundError:
        return []
    return [e for e in data.get("findings", []) if e.get("property") == pid]


def known_match(entry: dict, v: dict) -> bool:
    if entry.get("status") != "known":
        return False
    if entry.get("clause") != v["clause"] or entry.get("call_site") != v["call_site"]:
        return False
    inputs = entry.get("inputs")
    if inputs is not None and v["input"] not in inputs:
        return False
    prefix = entry.get("input_prefix")
    if prefix is not None and not v["input"].startswith(prefix):
        return False
    return True


# --------------------------------------------------------------------------
# evidence


def validate_evidence(path: str) -> None:
    code = (
        "import json,sys,jsonschema;"
        f"jsonschema.validate(json.load(open({path!r})),json.load(open({EVIDENCE_SCHEMA!r})))"
    )
    try:
        r = subprocess.run(
            ["python3-vt", "-c", code], capture_output=True, text=True, timeout=60
        )
        if r.returncode != 0:
            raise HarnessError("evidence does not validate: " + r.stderr[-800:])
        return
    except (FileNotFoundError, subprocess.TimeoutExpired):
        pass
    # structural fallback
    d = json.load(open(path))
    for k in ("property_id", "tier", "seed", "level", "coverage", "wall_s"):
        if k not in d:
            raise HarnessError(f"evidence misses {k}")


def write_evidence(ctx: Ctx, unexplained: int, known_met: List[str]) -> str:
    acc = ctx.acc
    cov: Dict[str, Any] = {}
    n = acc.n
    traces = n.get("traces", n.get("executions", 0))
    evaluations = n.get("evaluations", 0) or traces or n.get("transitions", 0)
    cov["evaluations"] = int(evaluations)
    cov["distinct_nontrivial"] = len(acc.nontrivial)
    cov["rule"] = ctx.rule
    cov["samples"] = acc.samples[:MAX_SAMPLES]
    if ctx.level == "model_checking":
        cov["states"] = int(n.get("states", 0))
        cov["transitions"] = int(n.get("transitions", 0))
        cov["traces_validated_against_impl"] = int(traces)
    cov["distinct_outcomes"] = len(acc.outcomes)
    cov["counters"] = {k: int(v) for k, v in sorted(n.items())}
    cov["bounds"] = ctx.bounds
    cov["caps_hit"] = acc.caps
    cov["exhaustive"] = bool(ctx.exhaustive and not acc.caps)
    cov["known_findings_met"] = known_met
    cov["violation_groups"] = {k: v for k, v in sorted(acc.vcount.items())}
    for k, v in acc.notes.items():
        if k not in cov:
            cov[k] = v
    ev = {
        "property_id": ctx.pid,
        "tier": ctx.tier,
        "seed": ctx.seed,
        "level": ctx.level,
        "coverage": cov,
        "assumptions": ctx.assumptions,
        "wall_s": round(time.time() - ctx.t0, 2),
        "violations": unexplained,
    }
    os.makedirs(EVIDENCE_DIR, exist_ok=True)
    path = os.path.join(EVIDENCE_DIR, f"{ctx.pid}.json")
    tmp = path + ".tmp"
    with open(tmp, "w") as f:
        json.dump(ev, f, indent=1, default=jdefault, sort_keys=False)
        f.write("\n")
    os.replace(tmp, path)
    validate_evidence(path)
    return path


# --------------------------------------------------------------------------
# replay files


def write_replay(pid: str, v: dict) -> str:
    os.makedirs(REPLAY_DIR, exist_ok=True)
    body = {
        "property": pid,
        "clause": v["clause"],
        "call_site": v["call_site"],
        "input": v["input"],
        "detail": v["detail"],
        "replay": v["replay"],
    }
    blob = json.dumps(body, sort_keys=True, default=jdefault)
    sha = hashlib.sha1(blob.encode()).hexdigest()[:12]
    path = os.path.join(REPLAY_DIR, f"{pid}-{sha}.json")
    with open(path, "w") as f:
        json.dump(body, f, indent=1, default=jdefault)
        f.write("\n")
    test_path = os.path.join(REPLAY_DIR, f"test_{pid}_{sha}.py")
    with open(test_path, "w") as f:
        f.write(
            f'"""Replays one recorded execution for {pid} without the explorer."""\n'
            "import subprocess, sys\n\n\n"
            f"def test_replay_{pid}_{sha}():\n"
            f"    r = subprocess.run([{os.path.join(VERIF, 'check')!r}, {pid!r}, '--replay', {path!r}])\n"
            "    assert r.returncode == 0, 'property violated by the recorded execution'\n"
        )
    return path


def confirm_in_fresh_process(pid: str, path: str) -> bool:
    """Replay twice in fresh processes; both must report the violation."""
    outs = []
    for _ in range(2):
        r = subprocess.run(
            [os.path.join(VERIF, "check"), pid, "--replay", path],
            capture_output=True,
            text=True,
            timeout=1800,
        )
        lines = sorted(
            l for l in r.stdout.splitlines() if l.startswith(("VIOLATION", "REPLAY-OBS"))
        )
        outs.append((r.returncode, lines))
    if outs[0] != outs[1]:
        raise HarnessError(f"replay of {path} is not deterministic: {outs}")
    return outs[0][0] == 1


# --------------------------------------------------------------------------
# main


def load_check(pid: str):
    return importlib.import_module(f"mc.checks.{pid.lower()}")


def main(argv: Optional[List[str]] = None) -> int:
    import argparse

    ap = argparse.ArgumentParser(prog="check")
    ap.add_argument("pid")
    ap.add_argument("--tier", default=os.environ.get("VERIF_TIER", "quick"))
    ap.add_argument("--seed", type=int, default=int(os.environ.get("VERIF_SEED", "0") or 0))
    ap.add_argument("--jobs", type=int, default=int(os.environ.get("VERIF_JOBS", "0") or 0))
    ap.add_argument("--replay")
    ap.add_argument("--no-confirm", action="store_true")
    args = ap.parse_args(argv)
    pid = args.pid.upper()
    if args.tier not in ("quick", "thorough"):
        args.tier = "quick"
    jobs = args.jobs or min(16, os.cpu_count() or 1)

    from mc import env

    env.quiet()
    mod = load_check(pid)

    if args.replay:
        payload = json.load(open(args.replay))
        acc = Acc()
        try:
            mod.replay(acc, payload["replay"])
        except HarnessError as e:
            print(f"HARNESS-ERROR property={pid} {e}")
            return 2
        for v in acc.violations:
            print(f"REPLAY-OBS {v['fkey']} input={v['input']} :: {v['detail'][:300]}")
        known = load_known(pid)
        unexplained = [
            v for v in acc.violations if not any(known_match(e, v) for e in known)
        ]
        if unexplained:
            print(f"VIOLATION property={pid} replay={args.replay}")
            return 1
        if acc.violations:
            print(f"KNOWN-FINDING: property={pid} {acc.violations[0]['fkey']} (replayed)")
        else:
            print(f"replay of {args.replay}: property holds on this execution")
        return 0

    ctx = Ctx(pid, args.tier, args.seed, jobs)
    ctx.level = getattr(mod, "LEVEL", "model_checking")
    try:
        mod.run(ctx)
    except HarnessError as e:
        ctx.close()
        print(f"HARNESS-ERROR property={pid} {e}")
        return 2
    finally:
        ctx.close()

    known = load_known(pid)
    groups: Dict[str, List[dict]] = {}
    for v in ctx.acc.violations:
        groups.setdefault(v["fkey"], []).append(v)
    known_met: Dict[int, int] = {}
    unexplained: List[dict] = []
    for fkey, vs in sorted(groups.items()):
        vs.sort(key=lambda v: (len(json.dumps(v["replay"], default=jdefault)), v["input"]))
        rest = []
        for v in vs:
            for i, e in enumerate(known):
                if known_match(e, v):
                    known_met[i] = known_met.get(i, 0) + 1
                    break
            else:
                rest.append(v)
        if rest:
            unexplained.append(rest[0])
            # a second representative with a different input helps triage
            for v in rest[1:]:
                if v["input"] != rest[0]["input"]:
                    unexplained.append(v)
                    break
    rc = 0
    for i, e in enumerate(known):
        if e.get("status") == "known":
            print(
                f"KNOWN-FINDING: property={pid} {e.get('what', e.get('clause'))} "
                f"[{e.get('clause')}@{e.get('call_site')}] (met {known_met.get(i, 0)} times in this run)"
            )
    try:
        shown = 0
        reported = []
        for v in unexplained:
            path = write_replay(pid, v)
            if not args.no_confirm and (shown < 3 or "Timeout: " in v["detail"]):
                if not confirm_in_fresh_process(pid, path):
                    if "Timeout: " in v["detail"]:
                        # a time budget exceeded on a loaded machine: in a quiet fresh process the
                        # same execution finishes and the property holds -> a cap, not a violation
                        ctx.acc.cap(f"time budget exceeded under load for {v['fkey']} input={v['input']} (holds when replayed in a fresh process)")
                        for f in (path, os.path.join(os.path.dirname(path), "test_" + os.path.basename(path).replace("-", "_").replace(".json", ".py"))):
                            try:
                                os.remove(f)
                            except OSError:
                                pass
                        continue
                    raise HarnessError(
                        f"violation {v['fkey']} input={v['input']} does not reproduce in a fresh process ({path})"
                    )
            shown += 1
            reported.append(v)
            print(f"  {v['fkey']} input={v['input']} (x{ctx.acc.vcount.get(v['fkey'], 1)}) :: {v['detail'][:400]}")
            print(f"VIOLATION property={pid} replay={path}")
            rc = 1
        unexplained = reported
        write_evidence(
            ctx,
            len(unexplained),
            [f"{known[i].get('clause')}@{known[i].get('call_site')} x{c}" for i, c in sorted(known_met.items())],
        )
    except HarnessError as e:
        print(f"HARNESS-ERROR property={pid} {e}")
        return 2
    n = ctx.acc.n
    print(
        f"{pid} tier={ctx.tier} seed={ctx.seed} level={ctx.level} "
        f"states={n.get('states', 0)} transitions={n.get('transitions', 0)} "
        f"traces={n.get('traces', 0)} evaluations={n.get('evaluations', 0)} "
        f"distinct_nontrivial={len(ctx.acc.nontrivial)} outcomes={len(ctx.acc.outcomes)} "
        f"caps={ctx.acc.caps} exhaustive={ctx.exhaustive and not ctx.acc.caps} "
        f"wall={time.time() - ctx.t0:.1f}s violations={len(unexplained)}"
    )
    return rc


if __name__ == "__main__":
    sys.exit(main())
