"""Enumeration of rule forms over the W-domain (and the G-domain): the rule, every
reverse, the equivalence form, reverse-of-equivalence, equivalence-of-reverse and
equivalence paths of chains of those (C07, C09, C10, C18)."""

from __future__ import annotations

from itertools import combinations, product
from typing import Any, Callable, Dict, Iterator, List, Optional, Sequence, Tuple

from mc import domain_w as dw


def w_classes(tier: str, max_prefix: int = 3) -> List[dw.W]:
    """Every class with |prefix| <= max_prefix over {a,b}, <= 2 patterns of length
    <= 2 (3 in the thorough tier), every choice of <= 2 statistics from {a, b, ab}."""
    plen = 2 if tier == "quick" else 3
    pats = dw.pattern_sets(2, plen)
    if tier != "quick":
        # keep the thorough family finite and relevant: two long patterns are rare in practice
        pats = [p for p in pats if sum(len(x) for x in p) <= 4 or len(p) == 1]
    stats_choices: List[Tuple[str, ...]] = [()]
    base = ["a", "b", "ab"]
    stats_choices += [(s,) for s in base]
    stats_choices += list(combinations(base, 2))
    prefixes = ["".join(w) for l in range(max_prefix + 1) for w in product("ab", repeat=l)]
    res = []
    for pre in prefixes:
        for p in pats:
            for st in stats_choices:
                res.append(dw.W(pre, p, "ab", False, st))
    # marked classes ({x,y,z}·C, three-to-one rule with a custom constructor)
    for pre in ("", "a", "ab"):
        for p in pats:
            for st in [(), ("a",), ("a", "ab")]:
                res.append(dw.W(pre, p, "ab", False, st, True))
    # statistics listed in reverse order (terms are keyed by position)
    for pre in ("", "a", "b", "ab"):
        for p in pats:
            for st in combinations(base, 2):
                res.append(dw.W(pre, p, "ab", False, st, False, True))
    if tier != "quick":
        for pre in ("", "c", "ac"):
            for p in [("ab",), ("b", "ca"), ("cc", "ab")]:
                for st in [(), ("a", "bc"), ("abc", "c")]:
                    res.append(dw.W(pre, p, "abc", False, st))
    return res


def w_strategies(tier: str) -> List[Any]:
    strats: List[Any] = []
    for norm in (False, True):
        strats.append(dw.Expand(k=1, norm=norm))
        strats.append(dw.Expand(k=1, norm=norm, drop_empty=True))
        strats.append(dw.RemoveFront(norm=norm))
    strats.append(dw.Expand(k=1, norm=True, atom_last=True))
    strats.append(dw.Expand(k=1, flip=True))
    strats.append(dw.Expand(k=1, norm=True, flip=True))
    strats.append(dw.RemoveFront(swap=True))
    strats.append(dw.RemoveFront(norm=True, swap=True))
    strats.append(dw.Expand(k=2))
    strats.append(dw.Expand(k=2, norm=True, drop_empty=True))
    strats += [dw.RemovePatterns(), dw.NormaliseStats(), dw.SwapLetters(), dw.AddImpliedPattern(), dw.Unmark()]
    return strats


def base_rules(classes: Sequence[dw.W], strategies: Sequence[Any]) -> Iterator[Any]:
    from comb_spec_searcher.exception import StrategyDoesNotApply

    for c in classes:
        if dw.brute_empty(c):
            continue
        for s in strategies:
            try:
                r = s(c)
                r.children
            except StrategyDoesNotApply:
                continue
            yield r


def form_id(desc: Tuple) -> str:
    return "/".join(str(x) for x in desc)


def derived_forms(rule, empty: Callable[[Any], bool] = dw.brute_empty) -> Iterator[Tuple[Tuple, Any]]:
    """(description, rule form) for every form the library derives from `rule`.
    Construction errors are yielded as (description, exception)."""
    yield ("plain",), rule
    n = len(rule.children)
    non_empty = [i for i, c in enumerate(rule.children) if not empty(c)]
    eqv = None
    try:
        if rule.is_equivalence():
            eqv = rule.to_equivalence_rule()
            yield ("equiv",), eqv
    except Exception as e:  # noqa: BLE001
        yield ("equiv",), e
    if rule.is_reversible():
        for i in non_empty:
            try:
                rev = rule.to_reverse_rule(i)
            except Exception as e:  # noqa: BLE001
                yield ("reverse", i), e
                continue
            yield ("reverse", i), rev
            try:
                if rev.is_equivalence():
                    yield ("reverse", i, "equiv"), rev.to_equivalence_rule()
            except Exception as e:  # noqa: BLE001
                yield ("reverse", i, "equiv"), e
    if eqv is not None and rule.is_reversible():
        try:
            # EquivalenceRule.to_reverse_rule builds the equivalence form of the reverse rule;
            # the library only builds it where that reverse rule is an equivalence
            if rule.to_reverse_rule(eqv.child_idx).is_equivalence():
                yield ("equiv", "reverse"), eqv.to_reverse_rule(0)
        except Exception as e:  # noqa: BLE001
            yield ("equiv", "reverse"), e


def one_child_equivalences(rule, empty: Callable[[Any], bool] = dw.brute_empty) -> List[Tuple[Tuple, Any]]:
    """The forms of `rule` that can be links of an equivalence path."""
    res = []
    for desc, f in derived_forms(rule, empty):
        if isinstance(f, Exception):
            continue
        try:
            if len(f.children) == 1 and f.is_equivalence():
                res.append((desc, f))
        except Exception:  # noqa: BLE001
            continue
    return res
