"""C08 — random sampling from a specification is exactly uniform.

E2 over the outcomes of the random number generator (enumerated, not sampled):
(i)  per rule form, for every (size, parameters) with count c > 0: every value
     r in 1..c of the top-level randint; the sub-samplers are stubs that record the
     request and whose own uniform choice among the true objects of the requested
     child / size / parameters is a further enumerated decision.  The exact
     distribution over parent objects is computed with Fractions.  r's are grouped
     by request pattern and the stubs' picks enumerated once per pattern (exact
     factorisation, validated against the unreduced enumeration on small counts).
(ii) end to end: the full decision tree of spec.random_sample_object_of_size(n)
     on the real nested samplers for small n.
"""

from __future__ import annotations

from fractions import Fraction
from itertools import product
from typing import Any, Dict, List, Optional, Tuple

from mc import domain_g as dg
from mc import domain_w as dw
from mc import env
from mc import forms
from mc.core import Acc, Ctx, HarnessError, Timeout, deadline
from mc.checks import c09, c09g
from mc.checks.c07 import brute_objects, params_of
from mc.checks.common_search import lattice
from mc.search import Cfg, call_site, execute
from mc.specs import domain_fns, spec_signature

LEVEL = "model_checking"

_SW_DEC = env.SwitchDec()
_SEAMS = None


def ensure_seams() -> None:
    global _SEAMS
    if _SEAMS is None:
        _SEAMS = env.seams(dec=_SW_DEC)
        _SEAMS.__enter__()


class EmptyRequest(Exception):
    pass


def objs_with(c, n: int, params: Dict[str, int]) -> List[Any]:
    want = tuple(params[k] for k in c.extra_parameters)
    return [o for o in brute_objects(c, n) if params_of(c, o) == want]


def bind_counts(form, terms_of) -> None:
    c09.bind(form, terms_of)

    def rec(child):
        def r(n, **params):
            return terms_of(child, n)[tuple(params[k] for k in child.extra_parameters)]

        return r

    form.subrecs = tuple(rec(ch) for ch in form.children)


def _starts_with_draw(form, n: int, pd: Dict[str, int], c: int) -> bool:
    """Does the sampler begin with one draw over the parent's count (both shipped constructors do)?"""
    if c <= 1:
        return True

    def stub(i, child):
        def s(n, **params):
            objs = objs_with(child, n, params)
            if not objs:
                raise EmptyRequest(f"child {i} asked for an object of size {n} with {params}: there is none")
            return objs[0]

        return s

    form.subsamplers = tuple(stub(i, ch) for i, ch in enumerate(form.children))
    dec = env.Decisions([])
    _SW_DEC.cur = dec
    form.random_sample_object_of_size(n, **pd)
    return bool(dec.trace) and dec.trace[0][1] == c and dec.trace[0][2] == "randint"


def _run_with_first(form, n, pd, r, picks, lists, c) -> List[Tuple[Any, Fraction]]:
    """Run with top-level draw r and the given stub picks; enumerate the final choice."""
    out: List[Tuple[Any, Fraction]] = []
    stack = [[r]] if c > 1 else [[]]
    while stack:
        prefix = stack.pop()
        it = iter(picks)

        def stub(i, child, it=it):
            def s(n, **params):
                return objs_with(child, n, params)[next(it)]

            return s

        form.subsamplers = tuple(stub(i, ch) for i, ch in enumerate(form.children))
        dec = env.Decisions(prefix)
        _SW_DEC.cur = dec
        obj = form.random_sample_object_of_size(n, **pd)
        p = Fraction(1)
        # the first recorded decision is the top-level draw (absent when there is a single object)
        rest = dec.trace[1:] if (dec.trace and dec.trace[0][2] == "randint") else dec.trace
        for c_, k, kind in rest:
            p *= Fraction(1, k)
        out.append((obj, p))
        for i in range(len(prefix), len(dec.trace)):
            for alt in range(1, dec.trace[i][1]):
                stack.append([x for x, _, _ in dec.trace[:i]] + [alt])
    return out


def distribution_generic(form, n: int, pd: Dict[str, int]) -> Tuple[Dict[Any, Fraction], int]:
    """Every decision sequence of the sampler, the stubs' picks being decisions of the same
    source (used when the sampler does not start with a draw over the parent's count, e.g.
    a custom constructor)."""

    def stub(i, child):
        def s(n, **params):
            objs = objs_with(child, n, params)
            if not objs:
                raise EmptyRequest(f"child {i} asked for an object of size {n} with {params}: there is none")
            return objs[_SW_DEC.cur.pick(len(objs), "stub")]

        return s

    form.subsamplers = tuple(stub(i, ch) for i, ch in enumerate(form.children))
    dist: Dict[Any, Fraction] = {}
    stack: List[List[int]] = [[]]
    execs = 0
    while stack:
        prefix = stack.pop()
        dec = env.Decisions(prefix)
        _SW_DEC.cur = dec
        obj = form.random_sample_object_of_size(n, **pd)
        execs += 1
        p = Fraction(1)
        for _, k, _kind in dec.trace:
            p *= Fraction(1, k)
        dist[obj] = dist.get(obj, Fraction(0)) + p
        for i in range(len(prefix), len(dec.trace)):
            for alt in range(1, dec.trace[i][1]):
                stack.append([x for x, _, _ in dec.trace[:i]] + [alt])
    return dist, execs


def distribution(form, n: int, pd: Dict[str, int], c: int, factorised: bool = True) -> Tuple[Dict[Any, Fraction], int]:
    requests: List[Tuple] = []
    if not _starts_with_draw(form, n, pd, c):
        return distribution_generic(form, n, pd)

    def stub(i, child):
        def s(n, **params):
            objs = objs_with(child, n, params)
            if not objs:
                raise EmptyRequest(f"child {i} asked for an object of size {n} with {params}: there is none")
            requests.append((i, n, tuple(sorted(params.items()))))
            return objs[0]

        return s

    execs = 0
    dist: Dict[Any, Fraction] = {}
    if not factorised:
        # unreduced: every r, every pick, every final choice
        for r in range(c):
            form.subsamplers = tuple(stub(i, ch) for i, ch in enumerate(form.children))
            del requests[:]
            dec = env.Decisions([r] if c > 1 else [])
            _SW_DEC.cur = dec
            form.random_sample_object_of_size(n, **pd)
            pat = tuple(requests)
            lists = [objs_with(form.children[i], m, dict(ps)) for i, m, ps in pat]
            for picks in product(*[range(len(l)) for l in lists]):
                prob = Fraction(1, c)
                for l in lists:
                    prob *= Fraction(1, len(l))
                for obj, p in _run_with_first(form, n, pd, r, picks, lists, c):
                    execs += 1
                    dist[obj] = dist.get(obj, Fraction(0)) + prob * p
        return dist, execs
    patterns: Dict[Tuple, List[int]] = {}
    for r in range(c):
        form.subsamplers = tuple(stub(i, ch) for i, ch in enumerate(form.children))
        del requests[:]
        dec = env.Decisions([r] if c > 1 else [])
        _SW_DEC.cur = dec
        form.random_sample_object_of_size(n, **pd)
        execs += 1
        if c > 1 and (not dec.trace or dec.trace[0][1] != c or dec.trace[0][2] != "randint"):
            raise HarnessError(f"the first decision of the sampler is {dec.trace[:1]}, expected randint over {c} values")
        patterns.setdefault(tuple(requests), []).append(r)
    for pat, rs in patterns.items():
        lists = [objs_with(form.children[i], m, dict(ps)) for i, m, ps in pat]
        for picks in product(*[range(len(l)) for l in lists]):
            prob = Fraction(len(rs), c)
            for l in lists:
                prob *= Fraction(1, len(l))
            for obj, p in _run_with_first(form, n, pd, rs[0], picks, lists, c):
                execs += 1
                dist[obj] = dist.get(obj, Fraction(0)) + prob * p
    return dist, execs


def check_form_sampling(acc: Acc, base, desc: Tuple, form, N: int, terms_of, payload: dict) -> None:
    from comb_spec_searcher.strategies.rule import Rule

    if isinstance(form, Exception) or not isinstance(form, Rule):
        return
    fid = forms.form_id(desc)
    kind = "+".join(str(d) for d in desc if not isinstance(d, int))
    where = f"{type(base.strategy).__name__}:{kind}"
    parent = form.comb_class
    names = parent.extra_parameters
    try:
        bind_counts(form, terms_of)
        for n in range(N + 1):
            truth: Dict[Tuple, List[Any]] = {}
            for o in brute_objects(parent, n):
                truth.setdefault(params_of(parent, o), []).append(o)
            for p, objs in sorted(truth.items()):
                c = len(objs)
                pd = dict(zip(names, p))
                try:
                    with deadline(60):
                        dist, execs = distribution(form, n, pd, c)
                except Timeout:
                    # the harness's own enumeration of all c draws and stub picks did not fit the
                    # budget: reported as a cap (the run is then not exhaustive), not as a
                    # statement about the library
                    acc.cap(f"form sampling: enumeration over budget for {where} size {n} ({c} objects)")
                    continue
                acc.count("traces", execs)
                acc.count("evaluations")
                acc.count("transitions", execs)
                bad = [(o, q) for o, q in dist.items() if o not in objs]
                if bad:
                    acc.violation("samples-outside-class", type(form.constructor).__name__, where,
                                  f"{c09.rule_desc(base)} form {fid}: size {n} params {pd}: returns {bad[0][0]} which is not such an object", payload)
                    return
                for o in objs:
                    if dist.get(o, Fraction(0)) != Fraction(1, c):
                        acc.violation(
                            "not-uniform", type(form.constructor).__name__, where,
                            f"{c09.rule_desc(base)} form {fid}: size {n} params {pd}: {c} objects, P({o}) = {dist.get(o, Fraction(0))}; "
                            f"distribution {sorted((str(k), str(v)) for k, v in dist.items())[:6]}",
                            payload,
                        )
                        return
                if c <= 4 and len(form.children) >= 2:
                    d2, e2 = distribution(form, n, pd, c, factorised=False)
                    acc.count("conformance_runs", e2)
                    if d2 != dist:
                        raise HarnessError(f"sampler factorisation not conformant for {c09.rule_desc(base)} form {fid} size {n} {pd}")
                acc.nt((c09.rule_desc(base), desc, n, p))
                acc.outcome((type(form.constructor).__name__, len(form.children), c > 1))
    except NotImplementedError:
        acc.count("forms_without_sampler")
    except EmptyRequest as e:
        acc.violation("descends-into-empty-composition", type(form.constructor).__name__, where,
                      f"{c09.rule_desc(base)} form {fid}: {e}", payload)
    except HarnessError:
        raise
    except Exception as e:  # noqa: BLE001
        acc.violation("exception-while-sampling", call_site(e), where, f"{c09.rule_desc(base)} form {fid}: {type(e).__name__}: {str(e)[:200]}", payload)


def check_rule_sampling(acc: Acc, base, N: int, strategies, terms_of, empty, payload: dict) -> None:
    from comb_spec_searcher.strategies.rule import EquivalencePathRule

    for desc, form in forms.derived_forms(base, empty):
        if desc[0] == "reverse" and len(desc) == 2:
            continue  # complement / quotient: the library documents no sampler
        check_form_sampling(acc, base, desc, form, N, terms_of, payload)
    for d0, f0 in forms.one_child_equivalences(base, empty):
        for pdesc, chain in c09.paths_from(d0, f0, strategies, 2, empty):
            try:
                path = EquivalencePathRule(chain)
            except Exception:  # noqa: BLE001
                continue
            check_form_sampling(acc, base, ("path",) + pdesc, path, N, terms_of, dict(payload, path=[str(x) for x in pdesc]))


def _worker_forms_w(arg) -> Acc:
    tier, lo, hi = arg
    ensure_seams()
    acc = Acc()
    N = 4 if tier == "quick" else 5
    classes = forms.w_classes(tier)[lo:hi]
    strategies = forms.w_strategies(tier)
    for base in forms.base_rules(classes, strategies):
        c = base.comb_class
        check_rule_sampling(acc, base, N, strategies, dw.brute_terms, dw.brute_empty,
                            {"kind": "form", "domain": "W", "class": c.to_jsonable(), "strategy": base.strategy.to_jsonable()})
    env.clear_library_caches()
    dw._BF_CACHE.clear()
    return acc


def _worker_forms_g(arg) -> Acc:
    from comb_spec_searcher.exception import StrategyDoesNotApply

    tier, family, stats_list, lo, hi = arg
    ensure_seams()
    acc = Acc()
    # size 5 for the one-nonterminal grammars in thorough; size 4 for the larger families
    N = 5 if (tier != "quick" and family == "one") else 4
    strategies = dg.g_strategies()
    for g in dg.grammars(family)[lo:hi]:
        for c in c09g.g_classes(g, [tuple(s) for s in stats_list]):
            if c.is_empty():
                continue
            for s in strategies:
                try:
                    base = s(c)
                    base.children
                except StrategyDoesNotApply:
                    continue
                check_rule_sampling(acc, base, N, strategies, dg.brute_terms, dg.brute_empty,
                                    {"kind": "form", "domain": "G", "class": c.to_jsonable(), "strategy": s.to_jsonable()})
        dg._TREES.clear()
    env.clear_library_caches()
    return acc


# ---------------------------------------------------------------------------
# (ii) end to end


def end_to_end(acc: Acc, cfg, spec, nmax: int, leaf_cap: int, payload: dict) -> None:
    from comb_spec_searcher.exception import InvalidOperationError

    start = cfg.start()
    names = start.extra_parameters
    for n in range(nmax + 1):
        truth: Dict[Tuple, List[Any]] = {}
        for o in brute_objects(start, n):
            truth.setdefault(params_of(start, o), []).append(o)
        absent = tuple(n + 1 for _ in names) if names else None
        cases = sorted(truth.items())
        if absent is not None:
            cases.append((absent, []))
        if not truth and not names:
            cases.append(((), []))
        for p, objs in cases:
            pd = dict(zip(names, p))
            c = len(objs)
            dist: Dict[Any, Fraction] = {}
            stack: List[List[int]] = [[]]
            leaves = 0
            while stack:
                prefix = stack.pop()
                dec = env.Decisions(prefix)
                _SW_DEC.cur = dec
                try:
                    with deadline(30):
                        obj = spec.random_sample_object_of_size(n, **pd)
                except InvalidOperationError:
                    if c != 0:
                        acc.violation("refuses-although-objects-exist", "CombinatorialSpecification.random_sample_object_of_size", cfg.sid(),
                                      f"size {n} params {pd}: InvalidOperationError but {c} objects exist", payload)
                    obj = None
                    break
                except NotImplementedError:
                    acc.count("specs_without_sampler")
                    return
                except Exception as e:  # noqa: BLE001
                    acc.violation("exception-while-sampling", call_site(e), cfg.sid(), f"size {n} params {pd}, decisions {dec.choices()}: {type(e).__name__}: {str(e)[:200]}", payload)
                    return
                if c == 0:
                    acc.violation("samples-from-nothing", "CombinatorialSpecification.random_sample_object_of_size", cfg.sid(),
                                  f"size {n} params {pd}: returned {obj} although no such object exists", payload)
                    break
                leaves += 1
                pr = Fraction(1)
                for _, k, _kind in dec.trace:
                    pr *= Fraction(1, k)
                dist[obj] = dist.get(obj, Fraction(0)) + pr
                for i in range(len(prefix), len(dec.trace)):
                    for alt in range(1, dec.trace[i][1]):
                        stack.append([x for x, _, _ in dec.trace[:i]] + [alt])
                if leaves > leaf_cap:
                    acc.cap(f"end-to-end decision tree capped at {leaf_cap} leaves")
                    dist = {}
                    break
            acc.count("traces", leaves)
            acc.count("transitions", leaves)
            if c and dist:
                acc.count("evaluations")
                for o in objs:
                    if dist.get(o, Fraction(0)) != Fraction(1, c):
                        acc.violation("not-uniform", "CombinatorialSpecification.random_sample_object_of_size", cfg.sid(),
                                      f"size {n} params {pd}: {c} objects, P({o}) = {dist.get(o, Fraction(0))} over {leaves} decision sequences", payload)
                        return
                if set(dist) - set(objs):
                    acc.violation("samples-outside-class", "CombinatorialSpecification.random_sample_object_of_size", cfg.sid(),
                                  f"size {n} params {pd}: returns {sorted(map(str, set(dist) - set(objs)))[:3]}", payload)
                    return
                acc.nt((cfg.sid(), n, p))


def _worker_specs(arg) -> Acc:
    cfgj, tier = arg
    cfg = Cfg.from_json(cfgj)
    acc = Acc()
    ex = execute(cfg, (), slice_default=0, horizon=60 if tier == "quick" else 150)
    if ex.outcome == "spec":
        ensure_seams()
        payload = {"kind": "spec", "cfg": cfg.to_json(), "horizon": 60 if tier == "quick" else 150}
        # thorough: size 4 (100 000-leaf cap) on the quick tier's configurations, size 3 on the extension
        deep = tier != "quick" and cfg.sid() in _quick_sids()
        end_to_end(acc, cfg, ex.spec, 4 if deep else 3, 100000 if deep else 40000, payload)
        acc.outcome(cfg.sid())
    if hash(cfg.sid()) % 211 == 3:
        acc.sample({"end_to_end_sampling_of": cfg.sid()})
    env.clear_library_caches()
    dw._BF_CACHE.clear()
    dg._TREES.clear()
    return acc


class _Interrupt(BaseException):
    """Models an interruption (Ctrl-C, timeout signal): not an Exception, so the library cannot swallow it."""


class _InterruptingDecisions(env.Decisions):
    """Answers 0 everywhere and raises _Interrupt at the k-th request to the random source."""

    def __init__(self, k: int) -> None:
        super().__init__(())
        self.k = k
        self.calls = 0

    def pick(self, kk: int, kind: str) -> int:
        self.calls += 1
        if self.calls - 1 == self.k:
            raise _Interrupt()
        return super().pick(kk, kind)


SANITY_LENGTH = 2


def after_interrupted_sanity_check(acc: Acc, cfg, tier: str) -> None:
    """(iii) a history: spec.sanity_check interrupted at its k-th request to the random source
    (every k), then sampling from the same specification object must still be exactly uniform."""
    horizon = 60 if tier == "quick" else 150
    k = 0
    while k < 400:
        ex = execute(cfg, (), slice_default=0, horizon=horizon)
        if ex.outcome != "spec":
            return
        ensure_seams()
        dec = _InterruptingDecisions(k)
        _SW_DEC.cur = dec
        interrupted = False
        try:
            with deadline(60):
                ex.spec.sanity_check(SANITY_LENGTH)
        except _Interrupt:
            interrupted = True
        except Exception:  # noqa: BLE001  (a failing or unsupported sanity check is not this property's business)
            return
        finally:
            _SW_DEC.cur = env.Decisions(())
        if not interrupted:
            acc.notes["sanity_interruption_points"] = acc.notes.get("sanity_interruption_points", 0) + k
            return
        payload = {"kind": "sanity-interrupt", "cfg": cfg.to_json(), "tier": tier, "k": k}
        before = len(acc.violations)
        end_to_end(acc, cfg, ex.spec, 2 if tier == "quick" else 3, 40000, payload)
        if len(acc.violations) > before:
            for v in acc.violations[before:]:
                v["detail"] = f"after spec.sanity_check({SANITY_LENGTH}) was interrupted at its {k}-th request to the random source: " + v["detail"]
            return
        acc.nt((cfg.sid(), "sanity-interrupt", k))
        k += 1


def _worker_sanity(arg) -> Acc:
    cfgj, tier = arg
    cfg = Cfg.from_json(cfgj)
    acc = Acc()
    after_interrupted_sanity_check(acc, cfg, tier)
    env.clear_library_caches()
    dw._BF_CACHE.clear()
    dg._TREES.clear()
    return acc


def sanity_configs(tier: str) -> List[Any]:
    cfgs = [c for c in spec_configs(tier) if c.db == "RuleDB" and c.pack in ("base", "g", "norm+sym")]
    step = max(1, len(cfgs) // (16 if tier == "quick" else 80))
    return cfgs[::step]


_QS: Any = None


def _quick_sids():
    global _QS
    if _QS is None:
        _QS = {c.sid() for c in spec_configs("quick")}
    return _QS


def spec_configs(tier: str) -> List[Any]:
    cfgs = [c for c in lattice(tier) if not getattr(c, "debug", False) and not getattr(c, "smallest", False)]
    if tier == "quick":
        cfgs = [c for c in cfgs if c.db in ("RuleDB", "Forest") and c.pack in ("base", "norm+sym", "inf2", "g", "marked")]
    else:
        from mc.checks.common_search import CORE_PACKS

        q = _quick_sids()
        cfgs = [c for c in cfgs if c.sid() in q or (c.db == "RuleDB" and (c.pack in CORE_PACKS or c.pack.startswith("g") or "marked" in c.pack))]
    return cfgs


def run(ctx: Ctx) -> None:
    ctx.rule = (
        "(i) every rule form with a sampler (plain, equivalence, equivalence paths; W and G families), every (size, parameters) "
        "with count c > 0, every value 1..c of the top-level draw, every pick of the stub sub-samplers and of the final choice; "
        "(ii) every decision sequence of the real nested samplers of the corpus specifications for sizes <= 3 (4); "
        "(iii) for a sub-family of the corpus, spec.sanity_check interrupted at every one of its requests to the random source, then (ii) on the same object; "
        "a trace is one complete decision sequence; non-trivial = distinct (rule form, size, parameters) / (specification, size, "
        "parameters) whose exact distribution was computed"
    )
    ctx.assumptions = ["stub sub-samplers are uniform on the true objects of the requested child (the induction hypothesis of the recursive method)",
                       "factorisation by request pattern (validated against the unreduced enumeration for counts <= 4)"]
    classes = forms.w_classes(ctx.tier)
    step = 24
    ctx.pmap(_worker_forms_w, [(ctx.tier, lo, min(lo + step, len(classes))) for lo in range(0, len(classes), step)])
    shards = []
    for family, stats_list in c09g.families(ctx.tier):
        total = len(dg.grammars(family))
        for lo in range(0, total, 40):
            shards.append((ctx.tier, family, [list(s) for s in (stats_list if family == "one" else stats_list[:2])], lo, min(lo + 40, total)))
    ctx.pmap(_worker_forms_g, shards)
    cfgs = spec_configs(ctx.tier)
    ctx.bounds = {"form_sizes": 4 if ctx.quick else 5, "end_to_end_sizes": 3 if ctx.quick else 4, "end_to_end_configurations": len(cfgs),
                  "leaf_cap": 40000 if ctx.quick else 100000}
    ctx.pmap(_worker_specs, [(c.to_json(), ctx.tier) for c in cfgs], chunksize=4)
    scfgs = sanity_configs(ctx.tier)
    ctx.bounds["interrupted_sanity_check_configurations"] = len(scfgs)
    ctx.pmap(_worker_sanity, [(c.to_json(), ctx.tier) for c in scfgs])
    ctx.bounds["sanity_interruption_points"] = ctx.acc.notes.pop("sanity_interruption_points", 0)
    ctx.acc.n["states"] = len(ctx.acc.nontrivial)


def replay(acc: Acc, payload: dict) -> None:
    ensure_seams()
    if payload.get("kind") == "sanity-interrupt":
        after_interrupted_sanity_check(acc, Cfg.from_json(payload["cfg"]), payload["tier"])
        return
    if payload.get("kind") == "spec":
        cfg = Cfg.from_json(payload["cfg"])
        ex = execute(cfg, (), slice_default=0, horizon=payload["horizon"])
        if ex.outcome == "spec":
            end_to_end(acc, cfg, ex.spec, 3, 40000, payload)
        return
    from comb_spec_searcher.strategies.strategy import AbstractStrategy

    s = AbstractStrategy.from_dict(dict(payload["strategy"]))
    if payload["domain"] == "G":
        c = dg.G.from_dict(payload["class"])
        check_rule_sampling(acc, s(c), 4, dg.g_strategies(), dg.brute_terms, dg.brute_empty, payload)
    else:
        c = dw.W.from_dict(payload["class"])
        check_rule_sampling(acc, s(c), 4, forms.w_strategies("quick"), dw.brute_terms, dw.brute_empty, payload)
