"""C19 — expanding verified classes preserves the enumeration and finishes the job.

E3: every specification found with a pack whose verification strategy
VerifyByPrefix(S) verifies non-atomic classes and supplies a pack (S ranges over
sets of <= 2 prefixes of length <= 2: none, one or several verified classes, at the
root, in the interior, inside equivalence paths), under every rule database.
expand_verified() runs under the virtual clock.  Oracle: C01 and C02 for the same
root, no expandable verified class left, no rule object shared with the original
when something was expanded, the original unchanged and still usable.
"""

from __future__ import annotations

from itertools import combinations
from typing import Any, List, Set, Tuple

from mc import domain_w as dw
from mc import env
from mc.core import Acc, Ctx, Timeout, deadline
from mc.search import Cfg, DBS, call_site, execute
from mc.specs import count_problems, nz, spec_signature, structure_problems

LEVEL = "exploration"
N = 6


def rule_objects(spec) -> List[Any]:
    from comb_spec_searcher.strategies.rule import EquivalencePathRule

    out = []

    def rec(r):
        # the rules of the specification: its rules_dict values and the links of its
        # equivalence paths.  The rule wrapped inside an EquivalenceRule / ReverseRule
        # (original_rule) is an internal of that rule: the library copies rules
        # shallowly, sharing it is harmless (none of its caches is used for counting)
        out.append(r)
        if isinstance(r, EquivalencePathRule):
            for x in r.rules:
                rec(x)

    for r in spec.rules_dict.values():
        rec(r)
    return out


def check_cfg(acc: Acc, cfg: Cfg, horizon: int) -> None:
    payload = {"cfg": cfg.to_json(), "horizon": horizon}
    ex = execute(cfg, (), slice_default=0, horizon=horizon)
    acc.count("traces")
    if ex.outcome != "spec":
        if ex.outcome == "exception":
            acc.violation("exception", ex.site, cfg.sid(), f"search: {type(ex.exc).__name__}: {str(ex.exc)[:200]}", payload)
        return
    spec = ex.spec
    start = cfg.start()
    where = cfg.sid()
    acc.count("evaluations")
    expandable = list(spec.unexpanded_verified_classes())
    sig_before = spec_signature(spec)
    terms_before = [nz(spec.get_terms(n)) for n in range(N)]
    ids_before = {id(r) for r in rule_objects(spec)}
    dec = env.Decisions()
    clock = env.VirtualClock(dec, slice_default=0, horizon=200)
    # every expansion must use the pack that the verification strategy of *that* class offers
    # for *that* class (observed at the call of expand_comb_class)
    from comb_spec_searcher import CombinatorialSpecification as _CS

    orig_ecc = _CS.expand_comb_class
    wrong_pack: List[str] = []

    def ecc(self_, comb_class, pack, *a, **kw):
        try:
            cc = self_.get_comb_class(comb_class) if isinstance(comb_class, int) else comb_class
            want = self_.rules_dict[cc].pack()
            acc.count("expansions_observed")
            if not (pack == want):
                wrong_pack.append(f"{cc.sid()} expanded with pack {pack.name!r}, its verification strategy offers {want.name!r}")
        except Exception:  # noqa: BLE001
            pass
        return orig_ecc(self_, comb_class, pack, *a, **kw)

    _CS.expand_comb_class = ecc
    try:
        with env.seams(clock=clock, dec=dec):
            with deadline(120):
                new = spec.expand_verified()
    except Timeout:
        acc.violation("does-not-finish", "CombinatorialSpecification.expand_verified", where, "no result within the horizon", payload)
        return
    except Exception as e:  # noqa: BLE001
        if wrong_pack:
            acc.violation("wrong-pack", "CombinatorialSpecification.expand_verified", where, wrong_pack[0], payload)
        acc.violation("exception", call_site(e), where, f"expand_verified: {type(e).__name__}: {str(e)[:200]}", payload)
        return
    finally:
        _CS.expand_comb_class = orig_ecc
    if wrong_pack:
        acc.violation("wrong-pack", "CombinatorialSpecification.expand_verified", where, wrong_pack[0], payload)
    try:
        left = list(new.unexpanded_verified_classes())
        if left:
            acc.violation("verified-class-left", "CombinatorialSpecification.expand_verified", where, f"still expandable: {[c.sid() for c in left]}", payload)
        probs = count_problems(new, start, N)
        if cfg.to_json().get("domain") == "G":
            from mc import domain_g as dg

            allowed = list(cfg.make_pack())
            for st in list(allowed):
                if isinstance(st, dg.GVerify) and st.pack_name:
                    allowed += list(dg.g_pack(st.pack_name))
        else:
            allowed = list(cfg.make_pack()) + list(dw.base_pack())
        probs += structure_problems(new, start, allowed)
        for p in probs[:2]:
            acc.violation("expanded-specification-invalid", "CombinatorialSpecification.expand_comb_class", where, p, payload)
        if expandable:
            shared = [r for r in rule_objects(new) if id(r) in ids_before]
            if shared:
                acc.violation("shares-rule-objects", "CombinatorialSpecification.expand_comb_class", where,
                              f"{len(shared)} rule objects of the original are reused, e.g. the rule of {shared[0].comb_class.sid()}", payload)
        # the original is left usable and unchanged
        if spec_signature(spec) != sig_before:
            acc.violation("original-changed", "CombinatorialSpecification.expand_verified", where, "the original specification has different rules afterwards", payload)
        after = [nz(spec.get_terms(n)) for n in range(N)]
        if after != terms_before or count_problems(spec, start, N):
            acc.violation("original-changed", "CombinatorialSpecification.expand_verified", where, "the original specification counts differently afterwards", payload)
    except Exception as e:  # noqa: BLE001
        acc.violation("exception", call_site(e), where, f"using the result: {type(e).__name__}: {str(e)[:200]}", payload)
        return
    # one class expanded through expand_comb_class itself, named by its label and by an equal
    # but distinct class object: the class must no longer be verified in the result
    from comb_spec_searcher.exception import SpecificationNotFound

    for c in expandable[:2]:
        try:
            twin = type(c).from_dict(c.to_jsonable())
            names = [("label", spec.get_label(c)), ("equal class object", twin)]
        except Exception:  # noqa: BLE001
            break
        for how, name in names:
            acc.count("evaluations")
            with env.seams(clock=clock, dec=dec):
                try:
                    with deadline(120):
                        pack = spec.rules_dict[c].pack()
                        try:
                            one = spec.expand_comb_class(name, pack, reverse=False, continue_expanding_verified=False)
                        except SpecificationNotFound:
                            acc.count("single_expansions_needing_reverse_rules")
                            continue
                except Timeout:
                    acc.violation("does-not-finish", "CombinatorialSpecification.expand_comb_class", where, f"{c.sid()} named by its {how}", payload)
                    continue
                except Exception as e:  # noqa: BLE001
                    acc.violation("exception", call_site(e), where, f"expand_comb_class({how}) of {c.sid()}: {type(e).__name__}: {str(e)[:200]}", payload)
                    continue
            try:
                still = c in set(one.unexpanded_verified_classes())
                if still:
                    acc.violation("verified-class-left", "CombinatorialSpecification.expand_comb_class", where,
                                  f"{c.sid()} named by its {how}: the result still holds the verification rule of the class it was asked to expand", payload)
                for p in count_problems(one, start, N)[:1]:
                    acc.violation("expanded-specification-invalid", "CombinatorialSpecification.expand_comb_class", where, f"{c.sid()} named by its {how}: {p}", payload)
            except Exception as e:  # noqa: BLE001
                acc.violation("exception", call_site(e), where, f"using the result of expand_comb_class({how}): {type(e).__name__}: {str(e)[:200]}", payload)
    acc.nt((where, sig_before))
    acc.outcome((len(expandable), spec.root in expandable, len(new.rules_dict) - len(spec.rules_dict) > 0))


def configs(tier: str) -> List[Cfg]:
    classes = dw.start_classes("quick")
    singles = ["e", "a", "b", "aa", "ab", "ba", "bb"]
    sets_ = [(s,) for s in singles] + list(combinations(["e", "a", "b", "ab"], 2))
    if tier == "quick":
        extras = ["", "+inf1", "+sym", "+norm"]
        stats_list = [(), ("a", "ab")]
        dbs = DBS
    else:
        extras = ["", "+inf1", "+inf2", "+sym", "+norm"]
        stats_list = [(), ("a",), ("a", "ab")]
        dbs = DBS
        classes = classes + [c for c in dw.start_classes("thorough") if c not in classes and not c.prefix][:40]
    res = []
    for c in classes:
        for st in stats_list:
            for s in sets_:
                for ex in extras:
                    for db in dbs:
                        res.append(Cfg.of(c.with_(stats=st), "ver:" + ",".join(s) + ex, db))
            res.append(Cfg.of(c.with_(stats=st), "base", "RuleDB"))  # nothing to expand: identity accepted
            # nested verification: the pack offered for a verified class verifies a deeper class
            for nested in ("ver2:a>ab", "ver2:e>a", "ver2:a>aa,ab", "ver2:b>ba,bb", "ver2:e,b>a,ba"):
                for db in dbs:
                    res.append(Cfg.of(c.with_(stats=st), nested, db))
    # verified classes that can only be expanded with a reverse rule (the retry of
    # expand_verified), also under an original specification that contains a reverse rule
    from mc import domain_g as dg
    from mc.search import GCfg

    for g, pk in dg.expand_universes():
        for db in ("RuleDB", "Forest", "Forget"):
            res.append(GCfg(g, (), pk, db))
    return res


def _worker(arg) -> Acc:
    items, tier = arg
    acc = Acc()
    for cj in items:
        cfg = Cfg.from_json(cj)
        check_cfg(acc, cfg, 60 if tier == "quick" else 120)
        if hash(cfg.sid()) % 307 == 0:
            acc.sample({"configuration": cfg.sid()})
    env.clear_library_caches()
    dw._BF_CACHE.clear()
    return acc


def run(ctx: Ctx) -> None:
    cfgs = configs(ctx.tier)
    ctx.rule = (
        "every configuration start class x VerifyByPrefix(S) for all S of <= 2 prefixes of length <= 2 (x inferral / symmetry / "
        "normalisation variants) x every rule database; expand_verified of the returned specification under the virtual clock; "
        "non-trivial = distinct (configuration, specification) pairs that were expanded and validated"
    )
    ctx.assumptions = ["C01/C02 oracles; sizes <= %d" % N, "the nested searches of expand_verified run under the harness clock (default slicing)"]
    ctx.bounds = {"configurations": len(cfgs)}
    items = [c.to_json() for c in cfgs]
    chunk = 12
    ctx.pmap(_worker, [(items[i : i + chunk], ctx.tier) for i in range(0, len(items), chunk)])


def replay(acc: Acc, payload: dict) -> None:
    check_cfg(acc, Cfg.from_json(payload["cfg"]), payload["horizon"])
