"""C16 — the work queue schedules every class completely, once, in order, and terminates.

E1 with monitor: explicit-state search over histories of the real DefaultQueue
(add / stop-yielding / verified / not-inferrable / next / do_level interleaved as
a generator), product state = complete queue attributes x obligation monitor x
do_level generator status.  A state is rebuilt by replaying its history on a fresh
queue (the do_level generator cannot be copied).
"""

from __future__ import annotations

from itertools import product
from typing import Any, Dict, List, Optional, Tuple

from mc.core import Acc, Ctx, HarnessError, Timeout, deadline
from mc.search import canon_queue

LEVEL = "model_checking"


def make_pack(ninf: int, nini: int, exp: Tuple[int, ...]):
    from comb_spec_searcher.strategies.strategy_pack import StrategyPack

    return StrategyPack(
        initial_strats=[f"ini{i}" for i in range(nini)],
        inferral_strats=[f"inf{i}" for i in range(ninf)],
        expansion_strats=[[f"exp{j}_{i}" for i in range(k)] for j, k in enumerate(exp)],
        ver_strats=[],
        name="stub",
    )


def expected_packets(ninf: int, nini: int, exp: Tuple[int, ...], inferral: bool) -> List[Tuple]:
    e: List[Tuple] = []
    if ninf and inferral:
        e.append((tuple(f"inf{i}" for i in range(ninf)), True))
    for i in range(nini):
        e.append(((f"ini{i}",), False))
    for j, k in enumerate(exp):
        for i in range(k):
            e.append(((f"exp{j}_{i}",), False))
    return e


class Monitor:
    def __init__(self, packcfg, nlabels: int) -> None:
        self.packcfg = packcfg
        self.added = [False] * nlabels
        self.stopped = [False] * nlabels
        self.notinf_first = [False] * nlabels  # marked not-inferrable before anything was handed out
        self.handed: List[List[Tuple]] = [[] for _ in range(nlabels)]
        self.exhausted = False  # last next() signalled exhaustion and nothing was added since

    def key(self) -> Tuple:
        return (
            tuple(self.added),
            tuple(self.stopped),
            tuple(self.notinf_first),
            tuple(tuple(h) for h in self.handed),
            self.exhausted,
        )

    def on_packet(self, wp) -> Optional[str]:
        l = wp.label
        pk = (tuple(wp.strategies), bool(wp.inferral))
        if not self.added[l]:
            return f"packet {pk} for label {l} which was never added"
        if self.stopped[l]:
            return f"packet {pk} for label {l} after it was told to stop"
        if pk in self.handed[l]:
            return f"packet {pk} for label {l} handed out twice"
        ninf, nini, exp = self.packcfg
        # both variants (with / without inferral work) are prefixes to compare with
        want = expected_packets(ninf, nini, exp, inferral=not self.notinf_first[l])
        pos = len(self.handed[l])
        if pos >= len(want) or want[pos] != pk:
            return f"packet {pk} for label {l} out of order: already handed {self.handed[l]}, schedule {want}"
        self.handed[l].append(pk)
        if self.exhausted:
            return "work handed out after exhaustion was signalled although nothing was added"
        return None

    def on_exhausted(self) -> Optional[str]:
        ninf, nini, exp = self.packcfg
        for l, a in enumerate(self.added):
            if not a or self.stopped[l]:
                continue
            want = expected_packets(ninf, nini, exp, inferral=not self.notinf_first[l])
            if self.handed[l] != want:
                return f"queue exhausted but label {l} received {self.handed[l]}, its complete schedule is {want}"
        self.exhausted = True
        return None


class Run:
    """Replays a history on a fresh queue with a fresh monitor."""

    def __init__(self, packcfg, nlabels: int) -> None:
        from comb_spec_searcher.class_queue import DefaultQueue

        self.q = DefaultQueue(make_pack(*packcfg))
        self.mon = Monitor(packcfg, nlabels)
        self.gen = None
        self.gen_level = None
        self.error: Optional[Tuple[str, str]] = None  # (clause, message)

    def state_key(self) -> Tuple:
        return (canon_queue(self.q), self.mon.key(), self.gen is not None, self.gen_level)

    def fail(self, clause: str, msg: str) -> None:
        if self.error is None:
            self.error = (clause, msg)

    def apply(self, op: Tuple) -> None:
        from comb_spec_searcher.exception import NoMoreClassesToExpandError

        q, mon = self.q, self.mon
        kind = op[0]
        try:
            if kind == "add":
                q.add(op[1])
                mon.added[op[1]] = True
                mon.exhausted = False
            elif kind == "stop":
                q.set_stop_yielding(op[1])
                mon.stopped[op[1]] = True
            elif kind == "verified":
                q.set_verified(op[1])
                mon.stopped[op[1]] = True
            elif kind == "notinf":
                q.set_not_inferrable(op[1])
                if not mon.handed[op[1]]:
                    mon.notinf_first[op[1]] = True
            elif kind == "next":
                try:
                    wp = next(q)
                except StopIteration:
                    e = mon.on_exhausted()
                    if e:
                        self.fail("incomplete-at-exhaustion", e)
                    return
                e = mon.on_packet(wp)
                if e:
                    self.fail("bad-packet", e)
            elif kind == "dl_start":
                self.gen = q.do_level()
                self.gen_level = None  # the generator reads the level when it first runs
            elif kind == "dl_next":
                if self.gen is None:
                    return
                if self.gen_level is None:
                    self.gen_level = q.levels_completed
                try:
                    wp = next(self.gen)
                except StopIteration:
                    if q.levels_completed == self.gen_level:
                        self.fail("do_level", "do_level ended although the level counter did not advance")
                    self.gen = None
                    self.gen_level = None
                    return
                except NoMoreClassesToExpandError:
                    if q.levels_completed != self.gen_level:
                        self.fail("do_level", "NoMoreClassesToExpandError although the level counter advanced")
                    e = mon.on_exhausted()
                    if e:
                        self.fail("incomplete-at-exhaustion", "do_level raised NoMoreClassesToExpandError: " + e)
                    self.gen = None
                    self.gen_level = None
                    return
                e = mon.on_packet(wp)
                if e:
                    self.fail("bad-packet", e)
            else:
                raise HarnessError(f"unknown op {op}")
        except (HarnessError, KeyboardInterrupt, Timeout):
            raise
        except Exception as ex:  # noqa: BLE001
            self.fail("exception", f"{type(ex).__name__}: {ex} in {op}")


def alphabet(nlabels: int) -> List[Tuple]:
    ops: List[Tuple] = [("next",)]
    for l in range(nlabels):
        ops.append(("add", l))
    for l in range(nlabels):
        ops.append(("stop", l))
    for l in range(nlabels):
        ops.append(("notinf", l))
    for l in range(nlabels):
        ops.append(("verified", l))
    ops += [("dl_start",), ("dl_next",)]
    return ops


def replay_history(packcfg, nlabels, hist) -> Run:
    # a queue operation takes microseconds; the deadline is wall time, so a worker that was
    # merely descheduled on a loaded machine is given a second, 50 times longer, attempt
    # before the history is reported as not returning
    for horizon in (0.2, 10.0):
        r = Run(packcfg, nlabels)
        try:
            with deadline(horizon):
                for op in hist:
                    r.apply(op)
                    if r.error:
                        break
            return r
        except Timeout:
            continue
    r.fail("non-termination", f"an operation of {list(hist)} did not return within the horizon")
    return r


class _Expander:
    def __init__(self, packcfg, nlabels: int):
        self.packcfg = packcfg
        self.nlabels = nlabels

    def __call__(self, hists):
        packcfg, nlabels = self.packcfg, self.nlabels
        acc = Acc()
        ops = alphabet(nlabels)
        where = f"pack(inf={packcfg[0]},ini={packcfg[1]},exp={packcfg[2]})/labels={nlabels}"
        succ = []
        local = set()
        for hist in hists:
            hist = [tuple(o) for o in hist]
            started = any(o[0] == "dl_start" for o in hist)
            for op in ops:
                if op[0] == "dl_next" and not started:
                    continue
                h2 = hist + [op]
                r = replay_history(packcfg, nlabels, h2)
                acc.count("transitions")
                if r.error:
                    acc.violation(r.error[0], "DefaultQueue", where, f"history {h2}: {r.error[1]}",
                                  {"pack": [packcfg[0], packcfg[1], list(packcfg[2])], "labels": nlabels, "history": [list(o) for o in h2]})
                    continue
                k = hash((where, r.state_key()))
                if k in local:
                    continue
                local.add(k)
                if r.mon.exhausted:
                    acc.nt(k)
                succ.append((k, h2))
        if succ and len(succ[0][1]) % 3 == 0 and len(hists) > 5:
            acc.sample({"pack": where, "history": [list(o) for o in succ[len(succ) // 2][1]]})
        return acc, succ


def self_test() -> None:
    # hand-written trace: one label, pack (1 inferral, 1 initial, one expansion set of 1)
    r = replay_history((1, 1, (1,)), 1, [("add", 0), ("next",), ("next",), ("next",), ("next",)])
    if r.error or r.mon.handed[0] != expected_packets(1, 1, (1,), True) or not r.mon.exhausted:
        raise HarnessError(f"queue monitor self test: {r.error} {r.mon.handed}")
    m = Monitor((1, 0, ()), 1)
    m.added[0] = True
    if m.on_exhausted() is None:
        raise HarnessError("queue monitor self test: incomplete schedule not noticed")


def run(ctx: Ctx) -> None:
    self_test()
    if ctx.quick:
        packs = [(0, 0, (1,)), (1, 1, (1,)), (1, 0, (1, 1)), (0, 1, (2, 1)), (2, 2, ()), (1, 1, (2, 1)), (0, 2, (1,))]
        plans = [(p, 2, 9) for p in packs] + [((1, 1, (1,)), 3, 7)]
    else:
        packs = [(a, b, e) for a in (0, 1, 2) for b in (0, 1, 2) for e in ((), (1,), (1, 1), (2, 1))]
        plans = [(p, 2, 11) for p in packs] + [(p, 3, 9) for p in [(1, 1, (1,)), (0, 1, (1, 1)), (1, 0, (2, 1)), (2, 2, ())]]
    ctx.rule = (
        "breadth-first search over histories of add/stop-yielding/verified/not-inferrable/next/do_level-start/do_level-next "
        "over 2 or 3 labels for the stated packs, deduplicated on (complete queue attributes, obligation monitor, do_level "
        "generator status); the monitor is evaluated on every transition; non-trivial = distinct states in which the queue "
        "has signalled exhaustion and the completeness obligation was evaluated"
    )
    ctx.assumptions = ["obligation monitor mc/checks/c16.py:Monitor (self-tested on a hand-written trace)"]
    ctx.bounds = {"plans": [{"pack": list(map(str, p)), "labels": n, "depth": d} for p, n, d in plans]}
    total = 0
    closed = {}
    for p, n, d in plans:
        r0 = replay_history(p, n, [])
        where = f"pack(inf={p[0]},ini={p[1]},exp={p[2]})/labels={n}"
        total += ctx.bfs([(hash((where, r0.state_key())), [])], _Expander(p, n), d, chunk=250)
        closed[f"{where}/depth={d}"] = ctx.bfs_closed
    ctx.acc.n["states"] = total
    ctx.acc.n["traces"] = ctx.acc.n.get("transitions", 0)
    ctx.bounds["closed"] = closed


def replay(acc: Acc, payload: dict) -> None:
    packcfg = (payload["pack"][0], payload["pack"][1], tuple(payload["pack"][2]))
    hist = [tuple(o) for o in payload["history"]]
    r = replay_history(packcfg, payload["labels"], hist)
    if r.error:
        acc.violation(r.error[0], "DefaultQueue", f"pack{packcfg}/labels={payload['labels']}", r.error[1], payload)
