"""C02 — returned specifications are closed, one-rule-per-class, genuine and productive.

Same executions as C01 (E2 schedules + E1 all slicings); the raw rule list handed
to CombinatorialSpecification is recorded so that duplicates hidden by the dict
constructor are visible.  Oracles: closure/reachability, re-application of the
strategy (fresh decomposition_function call), independent LFP productivity.
"""

from __future__ import annotations

from mc import domain_w as dw
from mc.core import Acc, Ctx
from mc.checks.common_search import (
    ConfigExplorer,
    lattice,
    replay_execution,
    undocumented_exception,
)
from mc.checks.c01 import wants_all_slicings
from mc.search import Cfg, Execution, call_site
from mc.specs import structure_problems

LEVEL = "model_checking"


def record_raw_rules(searcher) -> None:
    db = searcher.ruledb
    orig = db.get_specification_rules
    searcher._verif_raw_rules = None

    def wrapped(**kw):
        rules = list(orig(**kw))
        searcher._verif_raw_rules = rules
        return iter(rules)

    db.get_specification_rules = wrapped


def checker(acc: Acc, cfg: Cfg, ex: Execution, payload: dict) -> None:
    undocumented_exception(acc, cfg, ex, payload)
    if ex.outcome != "spec" or not getattr(ex, "spec_new", True):
        return
    try:
        probs = structure_problems(
            ex.spec, cfg.start(), cfg.make_pack(), getattr(ex.searcher, "_verif_raw_rules", None)
        )
        # counting terminates without circular reliance
        ex.spec.get_terms(6)
    except Exception as e:  # noqa: BLE001
        acc.violation(
            "exception-in-specification",
            call_site(e),
            cfg.sid(),
            f"{type(e).__name__}: {str(e)[:300]} (decisions {payload['prefix']})",
            dict(payload, kind="execution"),
        )
        return
    for p in probs[:2]:
        clause = (
            "not-productive" if p.startswith("not productive") else
            "not-genuine" if ("re-applying" in p or "not produced by the pack" in p or "verification rule" in p or "EmptyStrategy" in p) else
            "not-closed"
        )
        acc.violation(
            clause,
            "CombinatorialSpecification.rules_dict",
            cfg.sid(),
            f"{p} (decisions {payload['prefix']}, slice_default {payload['slice_default']})",
            dict(payload, kind="execution"),
        )


def _worker(arg) -> Acc:
    cfgj, tier, all_slicings = arg
    from mc import env

    cfg = Cfg.from_json(cfgj)
    acc = Acc()
    ce = ConfigExplorer(acc, cfg, tier, [checker], on_searcher=record_raw_rules)
    ce.explore_e2()
    if all_slicings:
        ce.explore_all_slicings()
    if hash(cfg.sid()) % 211 == 1:
        acc.sample({"configuration": cfg.sid(), "outcomes": ce.outcomes, "distinct_specifications": len(ce.seen_specs)})
    env.clear_library_caches()
    dw._BF_CACHE.clear()
    from mc import domain_g as dg

    dg._TREES.clear()
    return acc


def run(ctx: Ctx) -> None:
    cfgs = lattice(ctx.tier)
    ctx.rule = (
        "same executions as C01 (configuration lattice x schedules within the deviation bound, all slicings where stated); "
        "a case is one execution; non-trivial = distinct (configuration, returned specification) pairs, each checked for "
        "closure, reachability, genuineness by re-applying the strategy, and productivity by the independent fixed point"
    )
    ctx.assumptions = [
        "W-domain strategies honour the strategy contracts",
        "emptiness of a class judged by the domain's exact predicate (prefix contains a pattern)",
    ]
    ctx.bounds = {
        "configurations": len(cfgs),
        "deviations": {"quick": 1, "thorough": 2}[ctx.tier],
        "horizon_packets": 60 if ctx.quick else 150,
    }
    ctx.pmap(_worker, [(c.to_json(), ctx.tier, wants_all_slicings(c, ctx.tier)) for c in cfgs], chunksize=2)


def replay(acc: Acc, payload: dict) -> None:
    cfg, ex = replay_execution(payload, on_searcher=record_raw_rules)
    ex.spec_new = True
    checker(acc, cfg, ex, payload)
