"""C20 — equations and generating functions agree with the true enumeration.

E3: every specification of the corpus (0-2 statistics, forward and reverse rules,
equivalence paths, W and G domains), every equation it emits: every function
application F_i(args...) is replaced by the true series of class i (plain
enumeration up to degree M, positional in the actual arguments), denominators are
cleared and the difference must vanish coefficient by coefficient up to degree M.
Closed forms returned by get_genf are Taylor-expanded beyond the library's own
initial-condition check and compared with plain enumeration.
"""

from __future__ import annotations

from typing import Any, Dict, List, Optional, Tuple

from mc import domain_g as dg
from mc import domain_w as dw
from mc import env
from mc.core import Acc, Ctx, Timeout, deadline
from mc.checks.common_search import lattice
from mc.search import Cfg, call_site, execute
from mc.specs import domain_fns, spec_signature

LEVEL = "exploration"
M_QUICK, M_THOROUGH = 6, 8


def true_series(c, M: int, args) -> Any:
    """sum_{n<=M} sum_params count * arg0^n * prod arg_j^{p_j} with the actual arguments."""
    import sympy

    terms_of = domain_fns(c)[0]
    res = sympy.Integer(0)
    for n in range(M + 1):
        for params, cnt in terms_of(c, n).items():
            if not cnt:
                continue
            t = sympy.Integer(cnt) * args[0] ** n
            for a, p in zip(args[1:], params):
                t *= a ** p
            res += t
    return res


def equation_problem(spec, eq, M: int) -> Optional[str]:
    import sympy

    x = sympy.var("x")
    expr = eq.lhs - eq.rhs
    subs = {}
    for f in expr.atoms(sympy.core.function.AppliedUndef):
        name = f.func.__name__
        if name == "NOTIMPLEMENTED":
            return "skip"
        if not name.startswith("F_"):
            return f"unknown function {name}"
        label = int(name[2:])
        c = spec.get_comb_class(label)
        if len(f.args) != 1 + len(c.extra_parameters):
            return f"{f} has {len(f.args)} arguments, class {c.sid()} has {len(c.extra_parameters)} statistics"
        if f.args[0] != x:
            return f"{f}: first argument is not x"
        subs[f] = true_series(c, M, f.args)
    e = expr.subs(subs, simultaneous=True)
    num, den = sympy.fraction(sympy.together(e))
    num = sympy.expand(num)
    if num == 0:
        return None
    poly = sympy.Poly(num, x)
    # if the denominator vanishes at x = 0 the truncation order of the numerator shifts
    dpoly = sympy.Poly(sympy.expand(den), x)
    low_den = min(m[0] for m in dpoly.monoms())
    for (deg,), coeff in poly.terms():
        if deg <= M + low_den and sympy.expand(coeff) != 0:
            return f"coefficient of x^{deg} of lhs - rhs is {sympy.factor(coeff)}"
    return None


def check_spec(acc: Acc, cfg, spec, M: int, payload: dict, genf: bool) -> None:
    where = cfg.sid()
    try:
        with deadline(120):
            eqs = list(spec.get_equations())
    except Exception as e:  # noqa: BLE001
        acc.violation("exception", call_site(e), where, f"get_equations: {type(e).__name__}: {str(e)[:200]}", payload)
        return
    for eq in eqs:
        acc.count("evaluations")
        try:
            with deadline(120):
                p = equation_problem(spec, eq, M)
        except Timeout:
            acc.count("equations_over_budget")
            continue
        except Exception as e:  # noqa: BLE001
            acc.violation("exception", call_site(e), where, f"equation {eq}: {type(e).__name__}: {str(e)[:200]}", payload)
            return
        if p == "skip":
            acc.count("equations_not_implemented")
            continue
        if p:
            kinds = type(spec.rules_dict[spec.get_comb_class(int(str(eq.lhs.func)[2:]))]).__name__ if str(eq.lhs.func).startswith("F_") else "?"
            acc.violation("equation-not-satisfied", kinds, where, f"{eq.lhs} = {eq.rhs}: {p}", payload)
            return
        acc.nt((where, str(eq)))
    acc.outcome((where, len(eqs)))
    if genf and not cfg.start().extra_parameters:
        from comb_spec_searcher.utils import taylor_expand

        order = 12
        try:
            with deadline(60):
                gf = spec.get_genf()
                coeffs = taylor_expand(gf, order)
        except Timeout:
            acc.count("genf_over_budget")
            return
        except Exception as e:  # noqa: BLE001
            if type(e).__name__ in ("IncorrectGeneratingFunctionError", "NotImplementedError", "TaylorExpansionError"):
                acc.count("genf_not_available")
                return
            acc.violation("exception", call_site(e), where, f"get_genf: {type(e).__name__}: {str(e)[:200]}", payload)
            return
        terms_of = domain_fns(cfg.start())[0]
        want = [sum(terms_of(cfg.start(), n).values()) for n in range(order + 1)]
        got = [int(c) for c in coeffs]
        acc.count("genf_checked")
        if got != want:
            acc.violation("genf-taylor-differs", "CombinatorialSpecification.get_genf", where, f"{gf}: Taylor coefficients {got}, true counts {want}", payload)


def spec_configs(tier: str) -> List[Any]:
    cfgs = [c for c in lattice(tier) if not getattr(c, "debug", False) and not getattr(c, "smallest", False) and not getattr(c, "compressed", False)]
    if tier == "quick":
        keep = []
        for c in cfgs:
            if getattr(c, "grammar", None) is not None:
                if c.db == "Forest":
                    keep.append(c)
            elif c.pack in ("base", "norm+sym", "inf2", "rfac", "rfswap", "norm+atomlast", "oneway+inf1") and c.db in ("RuleDB", "Forest"):
                keep.append(c)
        cfgs = keep
    return cfgs


def _worker(arg) -> Acc:
    items, tier = arg
    acc = Acc()
    M = M_QUICK if tier == "quick" else M_THOROUGH
    for cj, genf in items:
        cfg = Cfg.from_json(cj)
        ex = execute(cfg, (), slice_default=0, horizon=60 if tier == "quick" else 150)
        acc.count("traces")
        if ex.outcome != "spec":
            continue
        check_spec(acc, cfg, ex.spec, M, {"cfg": cfg.to_json(), "genf": genf, "tier": tier}, genf)
        if hash(cfg.sid()) % 157 == 0:
            acc.sample({"specification_of": cfg.sid(), "equations": [str(e) for e in list(ex.spec.get_equations())[:3]]})
    env.clear_library_caches()
    dw._BF_CACHE.clear()
    dg._TREES.clear()
    return acc


def run(ctx: Ctx) -> None:
    cfgs = spec_configs(ctx.tier)
    ctx.rule = (
        "every equation emitted by the specification returned for every configuration of the (reduced) search lattice, W and G "
        "domains, 0-2 statistics, forward and reverse rules, equivalence paths; closed forms for the parameter-free "
        "configurations with RuleDB and the base pack (quick) / all parameter-free ones (thorough), Taylor order 12; "
        "non-trivial = distinct (configuration, equation) pairs verified coefficient by coefficient"
    )
    ctx.assumptions = ["true series by plain enumeration up to degree M", "sympy for expansion; equations or closed forms exceeding the time budget are counted and skipped"]
    M = M_QUICK if ctx.quick else M_THOROUGH
    ctx.bounds = {"configurations": len(cfgs), "degree": M, "taylor_order": 12}
    items = []
    for c in cfgs:
        genf = (not c.start().extra_parameters) and (c.db == "RuleDB") and (ctx.tier != "quick" or c.pack == "base")
        items.append((c.to_json(), genf))
    chunk = 6
    ctx.pmap(_worker, [(items[i : i + chunk], ctx.tier) for i in range(0, len(items), chunk)])


def replay(acc: Acc, payload: dict) -> None:
    cfg = Cfg.from_json(payload["cfg"])
    ex = execute(cfg, (), slice_default=0, horizon=60 if payload.get("tier", "quick") == "quick" else 150)
    if ex.outcome == "spec":
        check_spec(acc, cfg, ex.spec, M_QUICK, payload, payload.get("genf", False))
