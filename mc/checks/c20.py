"""C20 — equations and generating functions agree with the true enumeration.

E3: every specification of the corpus (0-2 statistics, forward and reverse rules,
equivalence paths, W and G domains), every equation it emits: every function
application F_i(args...) is replaced by the true series of class i (plain
enumeration up to degree M, positional in the actual arguments), denominators are
cleared and the difference must vanish coefficient by coefficient up to degree M.
Closed forms returned by get_genf are Taylor-expanded beyond the library's own
initial-condition check and compared with plain enumeration.
"""

from __future__ import annotations

from typing import Any, Dict, List, Optional, Tuple

from mc import domain_g as dg
from mc import domain_w as dw
from mc import env
from mc.core import Acc, Ctx, Timeout, deadline
from mc.checks.common_search import lattice
from mc.search import Cfg, call_site, execute
from mc.specs import domain_fns, spec_signature

LEVEL = "exploration"
M_QUICK, M_THOROUGH = 6, 7


class Series:
    """Truncated power series in x whose coefficients are expressions in the statistic
    variables: coefficients are exact for every degree <= prec."""

    def __init__(self, coeffs: Dict[int, Any], prec: int):
        self.c = {d: v for d, v in coeffs.items() if d <= prec and v != 0}
        self.prec = prec

    def val(self) -> int:
        return min(self.c) if self.c else self.prec + 1

    @staticmethod
    def const(v, M: int) -> "Series":
        return Series({0: v}, M)

    def add(self, o: "Series") -> "Series":
        import sympy

        p = min(self.prec, o.prec)
        out: Dict[int, Any] = {}
        for d in set(self.c) | set(o.c):
            if d <= p:
                out[d] = sympy.expand(self.c.get(d, 0) + o.c.get(d, 0))
        return Series(out, p)

    def neg(self) -> "Series":
        return Series({d: -v for d, v in self.c.items()}, self.prec)

    def mul(self, o: "Series", M: int) -> "Series":
        import sympy

        p = min(self.prec + o.val(), o.prec + self.val(), M)
        out: Dict[int, Any] = {}
        for d1, v1 in self.c.items():
            for d2, v2 in o.c.items():
                if d1 + d2 <= p:
                    out[d1 + d2] = out.get(d1 + d2, 0) + v1 * v2
        return Series({d: sympy.expand(v) for d, v in out.items()}, p)

    def inv(self, M: int) -> "Series":
        """1 / self for a series whose lowest coefficient is invertible; the result starts at
        x^(-val), which the caller absorbs by shifting (see div)."""
        raise NotImplementedError

    def div(self, o: "Series", M: int) -> "Series":
        import sympy

        v = o.val()
        if v > o.prec:
            raise ZeroDivisionError("division by a series that vanishes within the known precision")
        if self.val() < v and self.c:
            raise ZeroDivisionError("the quotient has a pole at x = 0")
        # shift both by x^v
        a = Series({d - v: c for d, c in self.c.items()}, self.prec - v)
        u = Series({d - v: c for d, c in o.c.items()}, o.prec - v)
        u0 = u.c[0]
        # inverse of the unit u by the usual recurrence
        p = u.prec
        inv: Dict[int, Any] = {0: sympy.cancel(1 / u0)}
        for d in range(1, p + 1):
            acc = 0
            for j in range(1, d + 1):
                if j in u.c and (d - j) in inv:
                    acc += u.c[j] * inv[d - j]
            inv[d] = sympy.cancel(-acc / u0)
        return a.mul(Series(inv, p), M)


def true_series(c, M: int, args) -> "Series":
    """sum_{n<=M} x^n sum_params count * prod arg_j^{p_j} with the actual (x-free) arguments."""
    import sympy

    terms_of = domain_fns(c)[0]
    coeffs: Dict[int, Any] = {}
    for n in range(M + 1):
        tot = sympy.Integer(0)
        for params, cnt in terms_of(c, n).items():
            if not cnt:
                continue
            t = sympy.Integer(cnt)
            for a, p in zip(args[1:], params):
                t *= a ** p
            tot += t
        if tot != 0:
            coeffs[n] = sympy.expand(tot)
    return Series(coeffs, M)


def evaluate(expr, spec, M: int) -> "Series":
    """The expression as a truncated power series, every F_i(x, ...) replaced by the true series."""
    import sympy

    x = sympy.var("x")
    if expr == x:
        return Series({1: sympy.Integer(1)}, M)
    if expr.is_Number:
        return Series.const(expr, M)
    if expr.is_Symbol:
        return Series.const(expr, M)
    if isinstance(expr, sympy.core.function.AppliedUndef):
        name = expr.func.__name__
        if name == "NOTIMPLEMENTED":
            raise NotImplementedError
        if not name.startswith("F_"):
            raise ValueError(f"unknown function {name}")
        c = spec.get_comb_class(int(name[2:]))
        if len(expr.args) != 1 + len(c.extra_parameters):
            raise ValueError(f"{expr} has {len(expr.args)} arguments, class {c.sid()} has {len(c.extra_parameters)} statistics")
        if expr.args[0] != x or any(a.has(x) for a in expr.args[1:]):
            raise ValueError(f"{expr}: unexpected arguments")
        return true_series(c, M, expr.args)
    if expr.is_Add:
        res = Series({}, M)
        for a in expr.args:
            res = res.add(evaluate(a, spec, M))
        return res
    if expr.is_Mul:
        num = Series.const(sympy.Integer(1), M)
        dens = []
        for a in expr.args:
            if a.is_Pow and a.exp.is_Integer and a.exp < 0:
                base = evaluate(a.base, spec, M)
                for _ in range(-int(a.exp)):
                    dens.append(base)
            else:
                num = num.mul(evaluate(a, spec, M), M)
        for dn in dens:
            num = num.div(dn, M)
        return num
    if expr.is_Pow and expr.exp.is_Integer:
        base = evaluate(expr.base, spec, M)
        if expr.exp >= 0:
            res = Series.const(sympy.Integer(1), M)
            for _ in range(int(expr.exp)):
                res = res.mul(base, M)
            return res
        res = Series.const(sympy.Integer(1), M)
        for _ in range(-int(expr.exp)):
            res = res.div(base, M)
        return res
    raise ValueError(f"cannot evaluate {expr} ({type(expr).__name__})")


def equation_problem(spec, eq, M: int) -> Optional[str]:
    """None if the equation holds coefficient by coefficient as far as the substituted true
    series determine both sides (precision is tracked through products and quotients)."""
    import sympy

    try:
        lhs = evaluate(eq.lhs, spec, M)
        rhs = evaluate(eq.rhs, spec, M)
    except NotImplementedError:
        return "skip"
    except (ValueError, ZeroDivisionError) as e:
        return str(e)
    prec = min(lhs.prec, rhs.prec)
    if prec < max(2, M - 3):
        return f"precision {prec} after evaluating the right-hand side is too low to judge"
    for d in range(prec + 1):
        diff = sympy.expand(lhs.c.get(d, 0) - rhs.c.get(d, 0))
        if diff != 0:
            return f"coefficient of x^{d}: lhs {lhs.c.get(d, 0)}, rhs {sympy.factor(rhs.c.get(d, 0))}"
    return None


def check_spec(acc: Acc, cfg, spec, M: int, payload: dict, genf: bool) -> None:
    where = cfg.sid()
    try:
        with deadline(120):
            eqs = list(spec.get_equations())
    except Exception as e:  # noqa: BLE001
        acc.violation("exception", call_site(e), where, f"get_equations: {type(e).__name__}: {str(e)[:200]}", payload)
        return
    for eq in eqs:
        acc.count("evaluations")
        try:
            with deadline(10):
                p = equation_problem(spec, eq, M)
        except Timeout:
            acc.count("equations_over_budget")
            continue
        except Exception as e:  # noqa: BLE001
            acc.violation("exception", call_site(e), where, f"equation {eq}: {type(e).__name__}: {str(e)[:200]}", payload)
            return
        if p == "skip":
            acc.count("equations_not_implemented")
            continue
        if p:
            kinds = type(spec.rules_dict[spec.get_comb_class(int(str(eq.lhs.func)[2:]))]).__name__ if str(eq.lhs.func).startswith("F_") else "?"
            acc.violation("equation-not-satisfied", kinds, where, f"{eq.lhs} = {eq.rhs}: {p}", payload)
            return
        acc.nt((where, str(eq)))
    acc.outcome((where, len(eqs)))
    if genf and not cfg.start().extra_parameters:
        from comb_spec_searcher.utils import taylor_expand

        # words are cheap to enumerate to length 12; parse trees grow much faster
        order = 12 if cfg.to_json().get("domain") != "G" else 8
        try:
            with deadline(30):
                gf = spec.get_genf()
                coeffs = taylor_expand(gf, order)
        except Timeout:
            acc.count("genf_over_budget")
            return
        except Exception as e:  # noqa: BLE001
            if type(e).__name__ in ("IncorrectGeneratingFunctionError", "NotImplementedError", "TaylorExpansionError"):
                acc.count("genf_not_available")
                return
            acc.violation("exception", call_site(e), where, f"get_genf: {type(e).__name__}: {str(e)[:200]}", payload)
            return
        terms_of = domain_fns(cfg.start())[0]
        want = [sum(terms_of(cfg.start(), n).values()) for n in range(order + 1)]
        got = [int(c) for c in coeffs]
        acc.count("genf_checked")
        if got != want:
            acc.violation("genf-taylor-differs", "CombinatorialSpecification.get_genf", where, f"{gf}: Taylor coefficients {got}, true counts {want}", payload)


def spec_configs(tier: str) -> List[Any]:
    cfgs = [c for c in lattice(tier) if not getattr(c, "debug", False) and not getattr(c, "smallest", False) and not getattr(c, "compressed", False)]
    if tier == "quick":
        keep = []
        for c in cfgs:
            if getattr(c, "grammar", None) is not None:
                if c.db in ("RuleDB", "Forest"):
                    keep.append(c)
            elif c.db in ("RuleDB", "Forest"):
                keep.append(c)
        cfgs = keep
    else:
        cfgs = [c for c in cfgs if c.db in ("RuleDB", "Forest")]
    return cfgs


def _worker(arg) -> Acc:
    items, tier = arg
    acc = Acc()
    M = M_QUICK if tier == "quick" else M_THOROUGH
    for cj, genf in items:
        cfg = Cfg.from_json(cj)
        ex = execute(cfg, (), slice_default=0, horizon=60 if tier == "quick" else 150)
        acc.count("traces")
        if ex.outcome != "spec":
            continue
        # two statistics: the polynomial coefficients grow fast, one degree less
        m = M if len(cfg.start().extra_parameters) < 2 else min(M, M_QUICK)
        check_spec(acc, cfg, ex.spec, m, {"cfg": cfg.to_json(), "genf": genf, "tier": tier}, genf)
        if hash(cfg.sid()) % 157 == 0:
            acc.sample({"specification_of": cfg.sid(), "equations": [str(e) for e in list(ex.spec.get_equations())[:3]]})
    env.clear_library_caches()
    dw._BF_CACHE.clear()
    dg._TREES.clear()
    return acc


def run(ctx: Ctx) -> None:
    cfgs = spec_configs(ctx.tier)
    ctx.rule = (
        "every equation emitted by the specification returned for every configuration of the (reduced) search lattice, W and G "
        "domains, 0-2 statistics, forward and reverse rules, equivalence paths; closed forms for the parameter-free "
        "configurations with RuleDB and the base pack (quick) / five packs (thorough), Taylor order 12; "
        "non-trivial = distinct (configuration, equation) pairs verified coefficient by coefficient"
    )
    ctx.assumptions = ["true series by plain enumeration up to degree M", "sympy for expansion; equations or closed forms exceeding the time budget are counted and skipped"]
    M = M_QUICK if ctx.quick else M_THOROUGH
    ctx.bounds = {"configurations": len(cfgs), "degree": M, "taylor_order": "12 (words), 8 (parse trees)"}
    items = []
    for c in cfgs:
        genf = (not c.start().extra_parameters) and (c.db == "RuleDB") and (c.pack in ("base", "g", "inf2", "sfac", "norm+sym") if ctx.tier != "quick" else c.pack == "base")
        items.append((c.to_json(), genf))
    chunk = 6
    ctx.pmap(_worker, [(items[i : i + chunk], ctx.tier) for i in range(0, len(items), chunk)])


def replay(acc: Acc, payload: dict) -> None:
    cfg = Cfg.from_json(payload["cfg"])
    ex = execute(cfg, (), slice_default=0, horizon=60 if payload.get("tier", "quick") == "quick" else 150)
    if ex.outcome == "spec":
        check_spec(acc, cfg, ex.spec, M_QUICK, payload, payload.get("genf", False))
