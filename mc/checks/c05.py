"""C05 — pruning-based detection and proof-tree search are exact.

(i)   E3+E2: all small integer rule dictionaries through prune / iterative_prune
      and every finder of tree_searcher under ALL decisions of the RNG.
(ii)  E1: real RuleDB / RuleDBForgetStrategy objects (stub searcher over real
      ClassDB and queue) fed all sequences of rule insertions from a bounded
      alphabet, has_specification queried after every insertion and only at the
      end, recursive and iterative packs, every start label.
(iii) the rule databases of real searches (E2 schedules), with the trees handed
      to the specification extractor.
Oracles: independent greatest fixed point / bottom-up derivability on the recorded
rules collapsed by independent strongly connected components; tree validity;
brute-force minimum tree size.
"""

from __future__ import annotations

from itertools import combinations, product
from typing import Any, Dict, List, Optional, Sequence, Set, Tuple

from mc import domain_w as dw
from mc import env
from mc.core import Acc, Ctx, HarnessError, Timeout, deadline
from mc.oracles import all_assignments, assignment_size, gfp_prune, iterative_lfp, min_tree_size, scc_partition
from mc.checks.common_search import ConfigExplorer, replay_execution, undocumented_exception
from mc.search import Cfg, Execution, call_site

LEVEL = "model_checking"

RDict = Dict[int, Set[Tuple[int, ...]]]
BFS_ITER_MAX_RULES = 3


def norm(d) -> Dict[int, frozenset]:
    return {k: frozenset(v) for k, v in d.items() if v}


def copy_rdict(d) -> RDict:
    from collections import defaultdict

    r = defaultdict(set)
    for k, v in d.items():
        r[k] = set(v)
    return r


# ---------------------------------------------------------------------------
# tree validity


def tree_problems(node, P, root: int, iterative_root: Optional[int] = None) -> List[str]:
    probs: List[str] = []
    if node.label != root:
        probs.append(f"tree root is {node.label}, asked for {root}")
    assign: Dict[int, Tuple[int, ...]] = {}
    for n in node.nodes():
        if n.children:
            key = tuple(sorted(c.label for c in n.children))
            if key not in P.get(n.label, ()):
                probs.append(f"node {n.label} -> {key} is not a recorded rule")
            if n.label in assign and assign[n.label] != key:
                probs.append(f"label {n.label} is given two different rules {assign[n.label]} and {key}")
            assign[n.label] = key
    for n in node.nodes():
        if not n.children:
            if n.label in assign or () in P.get(n.label, ()):
                continue
            if iterative_root is not None and n.label == iterative_root:
                continue
            probs.append(f"leaf {n.label} has no rule anywhere in the tree")
    return probs


def enumerate_rng(run, cap: int = 20000) -> Tuple[int, bool]:
    """All decision sequences of the RNG (no deviation bound)."""
    big = 10**6
    return env.explore_decisions(
        run, {"tree_choice": big, "shuffle": big, "rounds": big, "choice": big, "randint": big}, total=None, cap=cap
    )


# ---------------------------------------------------------------------------
# (i) integer dictionaries


def rule_alphabet(nlabels: int) -> List[Tuple[int, ...]]:
    r: List[Tuple[int, ...]] = [()]
    r += [(a,) for a in range(nlabels)]
    r += [(a, b) for a in range(nlabels) for b in range(a, nlabels)]
    return r


def rule_sets(alpha: Sequence[Tuple[int, ...]], kmax: int) -> List[Tuple[Tuple[int, ...], ...]]:
    res: List[Tuple[Tuple[int, ...], ...]] = [()]
    for k in range(1, kmax + 1):
        res += list(combinations(alpha, k))
    return res


_SW_DEC = env.SwitchDec()
_SW_CLOCK = env.SwitchClock()
_SEAMS_CM = None


def ensure_seams() -> None:
    """Install the switchable seams once per worker process."""
    global _SEAMS_CM
    if _SEAMS_CM is None:
        _SEAMS_CM = env.seams(clock=_SW_CLOCK, dec=_SW_DEC)
        _SEAMS_CM.__enter__()


def with_decisions(prefix, max_rounds: int = 1) -> env.Decisions:
    dec = env.Decisions(prefix)
    _SW_DEC.cur = dec
    _SW_CLOCK.cur = env.VirtualClock(dec, max_rounds=max_rounds)
    return dec


def check_dictionary(acc: Acc, D: RDict, where: str, finder_budget: Optional[int] = None, seen_pruned: Optional[set] = None, finders: bool = True) -> None:
    """prune / iterative_prune of D against the oracles; then the finders on the
    pruned dictionary (once per distinct pruned dictionary of the shard)."""
    import comb_spec_searcher.tree_searcher as ts

    ensure_seams()
    with_decisions(())
    payload = {"kind": "dict", "dict": {str(k): sorted(map(list, v)) for k, v in D.items()}, "finder_budget": finder_budget}
    labels = sorted(set(D) | {c for rs in D.values() for r in rs for c in r})

    def viol(clause, site, detail):
        acc.violation(clause, site, where, f"{ {k: sorted(v) for k, v in D.items()} }: {detail}", payload)

    acc.count("evaluations")
    P = copy_rdict(D)
    try:
        ts.prune(P)
    except Exception as e:  # noqa: BLE001
        viol("exception", "tree_searcher.prune", f"{type(e).__name__}: {e}")
        return
    want = gfp_prune(D)
    if norm(P) != norm(want):
        viol("prune!=gfp", "tree_searcher.prune", f"prune gives {dict(norm(P))}, greatest fixed point {dict(norm(want))}")
        return
    P = {k: set(v) for k, v in P.items() if v}
    for r in [None] + labels:
        got = ts.iterative_prune(copy_rdict(D), root=r)
        wanti = iterative_lfp(D, r)
        if norm(got) != norm(wanti):
            viol("iterative_prune!=lfp", "tree_searcher.iterative_prune", f"root {r}: {dict(norm(got))} vs {dict(norm(wanti))}")
            return
        if r is not None and r in got:
            IP = {k: set(v) for k, v in got.items()}
            finders = [("iterative_proof_tree_finder", ts.iterative_proof_tree_finder)]
            if sum(len(v) for v in D.values()) <= BFS_ITER_MAX_RULES:
                # iterative_proof_tree_bfs (not used by the library itself) does not terminate on some
                # inputs (known finding); it is exercised on the small dictionaries only, under a short horizon
                finders.append(("iterative_proof_tree_bfs", ts.iterative_proof_tree_bfs))
            for name, fn in finders:
                try:
                    with deadline(0.2 if name == "iterative_proof_tree_bfs" else 10):
                        t = fn(IP, r)
                except Timeout:
                    viol("non-termination", "tree_searcher." + name, f"root {r}: no tree within the horizon")
                    continue
                except Exception as e:  # noqa: BLE001
                    viol("exception", "tree_searcher." + name, f"root {r}: {type(e).__name__}: {e}")
                    continue
                acc.count("traces")
                for p in tree_problems(t, IP, r, iterative_root=r)[:1]:
                    viol("invalid-tree", "tree_searcher." + name, f"root {r}: tree {t}: {p}")
    if not P:
        return
    pk = tuple(sorted((k, tuple(sorted(v))) for k, v in P.items()))
    if seen_pruned is not None:
        if pk in seen_pruned:
            return
        seen_pruned.add(pk)
    acc.nt(pk)
    if finders:
        check_finders(acc, P, where, payload, finder_budget)


def check_finders(acc: Acc, P, where: str, payload: dict, budget: Optional[int]) -> None:
    """Every finder on a pruned dictionary.  budget None = all RNG decisions,
    otherwise at most `budget` deviations from the default decisions."""
    import comb_spec_searcher.tree_searcher as ts

    def viol(clause, site, detail):
        acc.violation(clause, site, where, f"pruned { {k: sorted(v) for k, v in P.items()} }: {detail}", payload)

    for r in sorted(P):
        assigns = list(all_assignments(P, r, limit=5000))
        if not assigns:
            raise HarnessError(f"oracle: no proof tree for surviving label {r} in {P}")
        minimum = min(map(assignment_size, assigns))
        maximum = max(map(assignment_size, assigns))
        with_decisions(())
        try:
            with deadline(20):
                dfs_trees = list(ts.proof_tree_generator_dfs(P, r))
        except Exception as e:  # noqa: BLE001
            viol("exception", "tree_searcher.proof_tree_generator_dfs", f"root {r}: {type(e).__name__}: {e}")
            dfs_trees = []
        for t in dfs_trees:
            acc.count("traces")
            for p in tree_problems(t, P, r)[:1]:
                viol("invalid-tree", "tree_searcher.proof_tree_generator_dfs", f"root {r}: tree {t}: {p}")
        if dfs_trees and min(len(t) for t in dfs_trees) != minimum:
            viol("generator-misses-smallest", "tree_searcher.proof_tree_generator_dfs", f"root {r}: smallest generated {min(len(t) for t in dfs_trees)}, true minimum {minimum}")
        if dfs_trees and len({tuple(sorted(t.rule_keys())) for t in dfs_trees}) != len(assigns):
            viol("generator-incomplete", "tree_searcher.proof_tree_generator_dfs", f"root {r}: {len({tuple(sorted(t.rule_keys())) for t in dfs_trees})} distinct rule sets generated, {len(assigns)} proof trees exist")
        # bounded generator: what the binary search for the smallest tree relies on
        for m in range(1, maximum + 2):
            try:
                with deadline(20):
                    first = next(ts.proof_tree_generator_dfs(P, r, maximum=m), None)
            except Exception as e:  # noqa: BLE001
                viol("exception", "tree_searcher.proof_tree_generator_dfs", f"root {r} maximum {m}: {type(e).__name__}: {e}")
                break
            acc.count("traces")
            if (first is not None) != (minimum <= m):
                viol("bounded-generator-wrong", "tree_searcher.proof_tree_generator_dfs",
                     f"root {r}, maximum {m}: {'a tree of size ' + str(len(first)) if first is not None else 'no tree'}, true minimum size {minimum}")
                break
            if first is not None and len(first) > m:
                viol("bounded-generator-wrong", "tree_searcher.proof_tree_generator_dfs", f"root {r}, maximum {m}: tree of size {len(first)}")
                break
        try:
            with deadline(20):
                bfs_trees = []
                for t in ts.proof_tree_generator_bfs(P, r):
                    bfs_trees.append(t)
                    if len(bfs_trees) >= 100:
                        break
        except Exception as e:  # noqa: BLE001
            viol("exception", "tree_searcher.proof_tree_generator_bfs", f"root {r}: {type(e).__name__}: {e}")
            bfs_trees = []
        for t in bfs_trees:
            acc.count("traces")
            ps = tree_problems(t, P, r)
            if ps:
                viol("invalid-tree", "tree_searcher.proof_tree_generator_bfs", f"root {r}: tree {t}: {ps[0]}")
                break
        # random finders under the decisions of the RNG
        for name in ("random_proof_tree", "proof_tree_dfs", "smallish_random_proof_tree"):
            outcomes = set()
            by_choices: Dict[Tuple, Set] = {}

            def run(prefix, name=name):
                dec = with_decisions(prefix)
                try:
                    with deadline(10):
                        if name == "random_proof_tree":
                            t = ts.random_proof_tree(P, r)
                        elif name == "proof_tree_dfs":
                            t = ts.proof_tree_dfs(P, r)[1]
                        else:
                            t = ts.smallish_random_proof_tree(P, r, 5.0)
                except Exception as e:  # noqa: BLE001
                    viol("exception", "tree_searcher." + name, f"root {r}, decisions {dec.choices()}: {type(e).__name__}: {e}")
                    return dec
                acc.count("traces")
                ps = tree_problems(t, P, r)
                for p in ps[:1]:
                    viol("invalid-tree", "tree_searcher." + name, f"root {r}, decisions {dec.choices()}: tree {t}: {p}")
                if not ps:
                    ks = tuple(sorted(t.rule_keys()))
                    outcomes.add(ks)
                    if name == "random_proof_tree":
                        # reduction used by the search-level checks (mc/env.py _Rng.shuffle): for fixed
                        # rule choices per label the shuffle decisions do not change the returned rule set
                        by_choices.setdefault(ks, set()).add(len(t))
                return dec

            if budget is None:
                n, capped = enumerate_rng(run, cap=4000)
                if capped:
                    acc.cap(f"RNG tree of {name} capped at 4000 executions")
            else:
                n, capped = env.explore_decisions(run, {"tree_choice": budget, "shuffle": budget, "rounds": 1}, total=budget, cap=4000)
            for ks, sizes in by_choices.items():
                if len(sizes) > 1:
                    viol("size-depends-on-shuffle", "tree_searcher.random_proof_tree", f"root {r}: rule set {ks} returned with tree sizes {sorted(sizes)}")
            acc.outcome((where, name, r, tuple(sorted(outcomes))))


def _worker_dicts(arg) -> Acc:
    nlabels, kmax, first_sets_idx, last_opts, budget = arg
    acc = Acc()
    alpha = rule_alphabet(nlabels)
    sets_ = rule_sets(alpha, kmax)
    per_label: List[List] = []
    for l in range(nlabels):
        if l == 0:
            per_label.append([sets_[first_sets_idx]])
        elif l == nlabels - 1 and last_opts is not None:
            per_label.append([tuple(map(tuple, o)) for o in last_opts])
        else:
            per_label.append(sets_)
    n = 0
    seen_pruned: set = set()
    for combo in product(*per_label):
        D = {l: set(rs) for l, rs in enumerate(combo) if rs}
        nrules = sum(len(v) for v in D.values())
        if budget == -1 and nrules > 4:
            # quick tier: finders only on the dictionaries with at most 4 rules
            check_dictionary(acc, D, f"dicts/{nlabels}labels", finder_budget=0, seen_pruned=seen_pruned, finders=False)
        else:
            fb = None if (budget is None or nrules <= 3) else abs(budget)
            check_dictionary(acc, D, f"dicts/{nlabels}labels", finder_budget=fb, seen_pruned=seen_pruned)
        n += 1
        if n == 7 and first_sets_idx % 11 == 3:
            acc.sample({"dictionary": {str(k): sorted(map(list, v)) for k, v in D.items()}})
    acc.count("states", n)
    acc.count("transitions", n)
    return acc


# ---------------------------------------------------------------------------
# (ii) real rule databases fed insertion sequences


class StubRule:
    """The part of the rule interface that RuleDBBase.add reads."""

    possibly_empty = False

    def __init__(self, children, two_way: bool, name: str):
        self.children = tuple(children)
        self._two_way = two_way
        self.strategy = name

    def is_two_way(self) -> bool:
        return self._two_way


class StubSearcher:
    def __init__(self, nlabels: int, start_label: int, iterative: bool):
        from comb_spec_searcher.class_db import ClassDB
        from comb_spec_searcher.class_queue import DefaultQueue
        from comb_spec_searcher.strategies.strategy_pack import StrategyPack

        self.classes = [dw.W("a" * i, (), "a") for i in range(nlabels)]
        self.classdb = ClassDB(dw.W)
        for c in self.classes:
            self.classdb.get_label(c)
        self.strategy_pack = StrategyPack([], [], [], [], "stub", iterative=iterative)
        self.classqueue = DefaultQueue(self.strategy_pack)
        self.start_label = start_label


def insertion_alphabet(nlabels: int) -> List[Tuple]:
    """(kind, start, ends): 'm' multi-child, 't' two-way one-child, 'o' one-way one-child, 'v' verification."""
    ops: List[Tuple] = []
    for a in range(nlabels):
        ops.append(("v", a, ()))
    for a in range(nlabels):
        for b in range(nlabels):
            if a != b:
                ops.append(("o", a, (b,)))
    for a in range(nlabels):
        for b in range(a + 1, nlabels):
            ops.append(("t", a, (b,)))
    for a in range(nlabels):
        for b in range(nlabels):
            for c in range(b, nlabels):
                if (b, c) != (a, a):
                    ops.append(("m", a, (b, c)))
    return ops


def reduced_insertion_alphabet(nlabels: int) -> List[Tuple]:
    full = insertion_alphabet(nlabels)
    keep = []
    for op in full:
        kind, a, ends = op
        if kind == "m":
            b, c = ends
            # keep the binary rules that do not mention the parent twice and a few recursive ones
            if not (b == c or a in ends) or (a == 0 and ends in ((0, 1), (1, 1))):
                keep.append(op)
        else:
            keep.append(op)
    return keep


def edge_insertion_alphabet(nlabels: int) -> List[Tuple]:
    """One-child rules and verification rules only: longer histories of the equivalence
    machinery (cycles of one-way edges with chords, merges in either order)."""
    return [op for op in insertion_alphabet(nlabels) if op[0] != "m"] + [("m", 0, (1, 2))]


def db_oracle(stored_plain, stored_eqv, start: int, iterative: bool) -> bool:
    """has_specification from the stored keys alone."""
    labels = {start}
    edges = []
    for s, e in list(stored_plain) + list(stored_eqv):
        labels.add(s)
        labels.update(e)
    for s, e in stored_eqv:
        edges += [(s, e[0]), (e[0], s)]
    for s, e in stored_plain:
        if len(e) == 1:
            edges.append((s, e[0]))
    scc = scc_partition(labels, edges)
    rep = {l: min(scc[l]) for l in labels}
    rd: RDict = {}
    for s, e in list(stored_plain) + list(stored_eqv):
        if len(e) == 1 and rep[s] == rep[e[0]]:
            continue
        rd.setdefault(rep[s], set()).add(tuple(sorted(rep[x] for x in e)))
    if iterative:
        return rep[start] in iterative_lfp(rd, rep[start])
    return rep[start] in gfp_prune(rd)


def make_rule(stub: StubSearcher, op):
    from comb_spec_searcher.strategies.rule import VerificationRule

    kind, a, ends = op
    if kind == "v":
        return VerificationRule(dw.WordAtom(), stub.classes[a], ())
    return StubRule([stub.classes[x] for x in ends], kind == "t", f"{kind}{a}{ends}")


def run_db_sequence(acc: Acc, dbkind: str, nlabels: int, start: int, iterative: bool, seq, query_every: bool, where: str) -> None:
    from comb_spec_searcher.rule_db import RuleDB, RuleDBForgetStrategy

    stub = StubSearcher(nlabels, start, iterative)
    db = RuleDB() if dbkind == "RuleDB" else RuleDBForgetStrategy()
    db.link_searcher(stub)
    payload = {"kind": "dbseq", "db": dbkind, "nlabels": nlabels, "start": start, "iterative": iterative,
               "seq": [[o[0], o[1], list(o[2])] for o in seq], "query_every": query_every}
    if dbkind == "Forget":
        # the stub pack cannot recompute strategies: skip histories in which a two-way rule
        # replaces a stored one-way rule with the same labels (RuleDBBase.add pops the old entry)
        oneway = {(o[1], o[2][0]) for o in seq if o[0] == "o"}
        if any(o[0] == "t" and ((o[1], o[2][0]) in oneway or (o[2][0], o[1]) in oneway) for o in seq):
            acc.count("skipped_forget_stub")
            return
    for i, op in enumerate(seq):
        try:
            db.add(op[1], op[2], make_rule(stub, op))
        except Exception as e:  # noqa: BLE001
            acc.violation("exception", call_site(e), where, f"add {op} after {seq[:i]}: {type(e).__name__}: {e}", payload)
            return
        if query_every or i == len(seq) - 1:
            acc.count("evaluations")
            try:
                with deadline(10):
                    got = db.has_specification()
            except Exception as e:  # noqa: BLE001
                acc.violation("exception", call_site(e), where, f"has_specification after {seq[: i + 1]}: {type(e).__name__}: {e}", payload)
                return
            want = db_oracle(set(db.rule_to_strategy), set(db.eqv_rule_to_strategy), start, iterative)
            if got != want:
                acc.violation(
                    "has_specification!=" + ("lfp" if iterative else "gfp"),
                    "RuleDBBase.has_specification",
                    where,
                    f"start {start}, {'iterative' if iterative else 'recursive'}, insertions {seq[: i + 1]} (queried {'after every insertion' if query_every else 'at the end'}): "
                    f"has_specification={got}, oracle {want}",
                    payload,
                )
                return
            if got and i == len(seq) - 1:
                acc.nt((dbkind, start, iterative, tuple(sorted(seq))))
                check_db_trees(acc, db, start, iterative, where, payload)


def check_db_trees(acc: Acc, db, start: int, iterative: bool, where: str, payload: dict) -> None:
    """The trees the database hands to the specification extractor."""
    P = {k: set(v) for k, v in db.pruned_dict.items()}
    root = db.equivdb[start]
    modes = [("iterative", False)] if iterative else [("smallish", False), ("smallest", True)]
    for mode, smallest in modes:

        def run(prefix, smallest=smallest):
            dec = env.Decisions(prefix)
            clock = env.VirtualClock(dec, max_rounds=1)
            with env.seams(clock=clock, dec=dec):
                try:
                    with deadline(20):
                        node = db._get_specification_node(1.0, smallest)
                except Exception as e:  # noqa: BLE001
                    acc.violation("exception", call_site(e), where, f"_get_specification_node({mode}): {type(e).__name__}: {e} decisions {dec.choices()}", payload)
                    return dec
            acc.count("traces")
            ps = tree_problems(node, P, root, iterative_root=root if iterative else None)
            for p in ps[:1]:
                acc.violation("invalid-tree", "RuleDBBase._get_specification_node", where, f"{mode}, decisions {dec.choices()}: tree {node}: {p}", payload)
            if smallest and not ps:
                m = min_tree_size(P, root)
                if len(node) != m:
                    acc.violation("smallest-not-minimal", "RuleDBBase._get_smallest_node", where,
                                  f"decisions {dec.choices()}: returned tree {node} of size {len(node)}, minimum over all proof trees {m} (pruned {P})", payload)
            return dec

        n, capped = env.explore_decisions(run, {"tree_choice": 2, "shuffle": 1, "rounds": 1}, total=2, cap=400)
        if capped:
            acc.cap("RNG decisions of _get_specification_node capped at 400")


def alphabet_for(nlabels: int, reduced) -> List[Tuple]:
    if reduced == "edges":
        return edge_insertion_alphabet(nlabels)
    return reduced_insertion_alphabet(nlabels) if reduced else insertion_alphabet(nlabels)


def _worker_dbseq(arg) -> Acc:
    nlabels, depth, first_idx, reduced = arg
    acc = Acc()
    alpha = alphabet_for(nlabels, reduced)
    n = 0
    for tail in product(range(len(alpha)), repeat=depth - 1):
        seq = [alpha[first_idx]] + [alpha[i] for i in tail]
        # insertion order matters to the database, not to the oracle: all orders are enumerated
        for dbkind in ("RuleDB", "Forget"):
            for iterative in (False, True):
                for start in range(nlabels):
                    if start not in {o[1] for o in seq} | {x for o in seq for x in o[2]}:
                        continue
                    for query_every in (True, False):
                        if dbkind == "Forget" and not query_every:
                            continue
                        run_db_sequence(acc, dbkind, nlabels, start, iterative, seq, query_every, f"dbseq/{nlabels}labels/depth{depth}")
                        n += 1
        if n and first_idx % 9 == 1 and len(acc.samples) < 1:
            acc.sample({"insertions": [[o[0], o[1], list(o[2])] for o in seq]})
    acc.count("states", n)
    acc.count("transitions", n * depth)
    return acc


# ---------------------------------------------------------------------------
# (iii) rule databases of real searches


def on_searcher(searcher) -> None:
    from comb_spec_searcher.rule_db.base import RuleDBBase

    db = searcher.ruledb
    db._verif_nodes = []
    if not isinstance(db, RuleDBBase):
        return
    orig = db._get_specification_node

    def wrapped(minimization_time_limit, smallest):
        node = orig(minimization_time_limit, smallest)
        db._verif_nodes.append((node, {k: set(v) for k, v in db.pruned_dict.items()}, smallest))
        return node

    db._get_specification_node = wrapped


def search_checker(acc: Acc, cfg: Cfg, ex: Execution, payload: dict) -> None:
    from comb_spec_searcher.rule_db.base import RuleDBBase

    undocumented_exception(acc, cfg, ex, payload)
    if ex.searcher is None or not isinstance(ex.searcher.ruledb, RuleDBBase) or ex.outcome in ("exception", "pruned"):
        return
    db = ex.searcher.ruledb
    iterative = db.iterative
    acc.count("evaluations")
    try:
        got = db.has_specification()
    except Exception as e:  # noqa: BLE001
        acc.violation("exception", call_site(e), cfg.sid(), f"has_specification: {type(e).__name__}: {e}", dict(payload, kind="execution"))
        return
    want = db_oracle(set(db.rule_to_strategy), set(db.eqv_rule_to_strategy), ex.searcher.start_label, iterative)
    if got != want:
        acc.violation(
            "has_specification!=" + ("lfp" if iterative else "gfp"), "RuleDBBase.has_specification", cfg.sid(),
            f"at the end of the run ({ex.outcome}): has_specification={got}, oracle on the {len(db.rule_to_strategy) + len(db.eqv_rule_to_strategy)} stored keys: {want} "
            f"(start label {ex.searcher.start_label}, representative {db.equivdb[ex.searcher.start_label]}; decisions {payload['prefix']})",
            dict(payload, kind="execution"),
        )
    if (ex.outcome == "spec") != got and ex.outcome in ("spec", "notfound"):
        acc.violation("outcome-vs-has_specification", "CombinatorialSpecificationSearcher.auto_search", cfg.sid(),
                      f"outcome {ex.outcome} but has_specification={got}", dict(payload, kind="execution"))
    root = db.equivdb[ex.searcher.start_label]
    for node, P, smallest in getattr(db, "_verif_nodes", []):
        acc.count("traces")
        ps = tree_problems(node, P, root, iterative_root=root if iterative else None)
        for p in ps[:1]:
            acc.violation("invalid-tree", "RuleDBBase._get_specification_node", cfg.sid(), f"tree {node}: {p} (decisions {payload['prefix']})", dict(payload, kind="execution"))
        if smallest and not ps:
            m = min_tree_size(P, root)
            if m is not None and len(node) != m:
                acc.violation("smallest-not-minimal", "RuleDBBase._get_smallest_node", cfg.sid(),
                              f"returned tree of size {len(node)}, minimum over all proof trees {m} (decisions {payload['prefix']})", dict(payload, kind="execution"))
        acc.nt((cfg.sid(), str(node)))


def search_configs(tier: str) -> List[Cfg]:
    classes = dw.start_classes("quick")
    res = []
    packs = ["base", "inf1", "inf2", "sym", "norm+sym", "oneway+inf1", "onewayexp+inf1+sym", "base+iter", "inf1+iter", "inf2+iter", "sym+iter", "oneway+inf1+iter"] if tier == "quick" else [
        "base", "inf1", "inf2", "inf2r", "sym", "norm+sym", "rfac", "two", "ver:a,b", "base+iter", "inf1+iter", "inf2+iter", "sym+iter", "rfac+iter", "ver:a,b+iter", "oneway", "oneway+inf1", "onewayexp+inf1+sym", "oneway+inf2", "oneway+inf1+iter", "onewayexp+inf1+iter"]
    for c in classes:
        for pk in packs:
            for db in ("RuleDB", "Forget"):
                res.append(Cfg.of(c, pk, db))
                if "iter" not in pk and db == "RuleDB":
                    res.append(Cfg.of(c, pk, db, smallest=True))
        if tier != "quick":
            for pk in ("inf1", "inf1+iter", "sym"):
                res.append(Cfg.of(c.with_(stats=("a", "ab")), pk, "RuleDB"))
    return res


def _worker_search(arg) -> Acc:
    cfgj, tier = arg
    cfg = Cfg.from_json(cfgj)
    acc = Acc()
    ce = ConfigExplorer(acc, cfg, tier, [search_checker], on_searcher=on_searcher)
    ce.explore_e2()
    env.clear_library_caches()
    return acc


def self_test() -> None:
    d = {0: {(1, 2)}, 1: {(3,)}, 2: {(3,)}, 3: {(4,), (5,)}, 4: {()}, 5: {()}, 6: {(7,)}}
    g = gfp_prune(d)
    if set(g) != {0, 1, 2, 3, 4, 5}:
        raise HarnessError("gfp oracle self test")
    if min_tree_size(g, 0) != 6:
        raise HarnessError(f"minimum tree size self test: {min_tree_size(g, 0)}")
    it = iterative_lfp({0: {(1,), (0, 1)}, 1: {()}, 2: {(2,)}}, 0)
    if norm(it) != {0: frozenset({(1,), (0, 1)}), 1: frozenset({()})}:
        raise HarnessError(f"iterative oracle self test {it}")
    if not db_oracle({(0, (1, 2)), (1, ()), (2, (0,))}, set(), 0, False):
        raise HarnessError("db oracle self test")


def run(ctx: Ctx) -> None:
    self_test()
    ctx.rule = (
        "(i) every rule dictionary over 3 (thorough: 4) labels with <= 2 rules per label of arity <= 2, through prune, "
        "iterative_prune with every root, both deterministic generators (all trees; bounded generator for every bound) and the "
        "random finders under all RNG decisions; (ii) every sequence of <= L insertions from a bounded alphabet of multi-child, "
        "two-way, one-way and verification rules over 3 (4) labels into real RuleDB/RuleDBForgetStrategy objects, every start "
        "label, recursive and iterative, queried after every insertion and only at the end; (iii) the rule databases of real "
        "searches under all schedules within the deviation bound; non-trivial = distinct pruned dictionaries / specification-"
        "bearing insertion multisets / (configuration, tree) pairs"
    )
    ctx.assumptions = ["oracles gfp_prune / iterative_lfp / scc_partition / all_assignments in mc/oracles.py (self-tested)"]
    shards_d = []
    if ctx.quick:
        nl, kmax = 3, 2
        nsets = len(rule_sets(rule_alphabet(nl), kmax))
        shards_d = [(nl, kmax, i, None, -1) for i in range(nsets)]
        db_plans = [(3, 3, False), (4, 2, True), (3, 4, "edges")]
    else:
        nl, kmax = 3, 2
        nsets = len(rule_sets(rule_alphabet(nl), kmax))
        # finders on every 3-label dictionary: all RNG decisions for <= 3 rules, <= 2 deviations otherwise
        shards_d = [(nl, kmax, i, None, 2) for i in range(nsets)]
        # 4-label family (last label carries the rule (0, 1)): pruning for all of them,
        # finders with <= 1 deviation on those with <= 4 rules
        nsets4 = len(rule_sets(rule_alphabet(4), 2))
        last = [[[0, 1]]]
        shards_d += [(4, 2, i, last, -1) for i in range(nsets4)]
        db_plans = [(3, 4, False), (4, 3, True), (3, 5, "edges")]
    ctx.bounds = {"dictionaries": {"labels": [s[0] for s in shards_d[:1]] + ([4] if not ctx.quick else []), "rules_per_label": 2, "arity": 2},
                  "db_sequences": [{"labels": n, "depth": d, "reduced_alphabet": r} for n, d, r in db_plans]}
    shards_s = []
    for n, d, reduced in db_plans:
        alpha = alphabet_for(n, reduced)
        shards_s += [(n, d, i, reduced) for i in range(len(alpha))]
    cfgs = search_configs(ctx.tier)
    ctx.bounds["search_configurations"] = len(cfgs)
    tasks = [(_worker_dicts, s) for s in shards_d] + [(_worker_dbseq, s) for s in shards_s]
    tasks += [(_worker_search, (c.to_json(), ctx.tier)) for c in cfgs]
    ctx.pmap_tasks(tasks)


def replay(acc: Acc, payload: dict) -> None:
    kind = payload.get("kind")
    if kind == "dict":
        D = {int(k): {tuple(r) for r in v} for k, v in payload["dict"].items()}
        check_dictionary(acc, D, "replay", finder_budget=payload.get("finder_budget"))
    elif kind == "dbseq":
        seq = [(o[0], o[1], tuple(o[2])) for o in payload["seq"]]
        run_db_sequence(acc, payload["db"], payload["nlabels"], payload["start"], payload["iterative"], seq, payload["query_every"], "replay")
    else:
        cfg, ex = replay_execution(payload, on_searcher=on_searcher)
        search_checker(acc, cfg, ex, payload)
