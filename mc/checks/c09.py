"""C09 — every rule form counts its parent correctly from its children, with parameters.
C10 shares this enumeration (mc/checks/c10.py).

E3: every non-empty class of the bounded W family (and every class of every
grammar of the G family) x every applicable strategy x every form the library
derives (plain, every reverse, equivalence, reverse-of-equivalence,
equivalence-of-reverse, equivalence paths of chains of length <= 3).  The sub-term
providers are bound to plain enumeration of the children; the computed terms of
the parent must equal plain enumeration for all sizes <= N and all parameters.
"""

from __future__ import annotations

from typing import Any, Callable, Dict, List, Optional, Sequence, Tuple

from mc import domain_w as dw
from mc import env
from mc import forms
from mc.core import Acc, Ctx, HarnessError, deadline
from mc.search import call_site
from mc.specs import nz

LEVEL = "exploration"
N_QUICK, N_THOROUGH = 6, 7
GATE_N = 5


def rule_desc(rule) -> str:
    return f"{rule.strategy!r} on {rule.comb_class.sid()}"


def bind(form, terms_of: Callable[[Any, int], Any], log: Optional[List] = None, level_box: Optional[List[int]] = None) -> None:
    """Bind the sub-term providers of `form` to plain enumeration of its children."""

    def provider(i, child):
        def get(n):
            if log is not None:
                log.append((level_box[0], i, n))
            return terms_of(child, n)

        return get

    form.subterms = tuple(provider(i, ch) for i, ch in enumerate(form.children))


def check_form(acc: Acc, base, desc: Tuple, form, N: int, terms_of, where: str, payload: dict) -> bool:
    """Returns True if the form could be evaluated."""
    fid = forms.form_id(desc)
    kind = desc[0] if len(desc) == 1 else "+".join(str(d) for d in desc if not isinstance(d, int))
    if isinstance(form, Exception):
        if isinstance(form, NotImplementedError):
            acc.count("not_implemented_forms")
            return False
        acc.violation("form-construction-fails", call_site(form), f"{type(base.strategy).__name__}:{kind}",
                      f"{rule_desc(base)} form {fid}: {type(form).__name__}: {str(form)[:200]}", payload)
        return False
    try:
        bind(form, terms_of)
        for n in range(N + 1):
            with deadline(30):
                got = nz(form.get_terms(n))
            want = nz(terms_of(form.comb_class, n))
            acc.count("evaluations")
            if got != want:
                acc.violation(
                    "wrong-terms",
                    type(form.constructor).__name__ if hasattr(form, "constructor") else type(form).__name__,
                    f"{type(base.strategy).__name__}:{kind}",
                    f"{rule_desc(base)} form {fid} (parent {form.comb_class.sid()}, children {[c.sid() for c in form.children]}): "
                    f"size {n}: computed {got}, true {want}",
                    payload,
                )
                return True
    except NotImplementedError:
        acc.count("not_implemented_forms")
        return False
    except Exception as e:  # noqa: BLE001
        acc.violation("exception-while-counting", call_site(e), f"{type(base.strategy).__name__}:{kind}",
                      f"{rule_desc(base)} form {fid}: {type(e).__name__}: {str(e)[:200]}", payload)
        return True
    return True


def paths_from(first_desc, first, strategies, depth: int, empty=dw.brute_empty) -> List[Tuple[Tuple, List[Any]]]:
    """Chains of one-child equivalence forms starting with `first`, length 2..depth."""
    from comb_spec_searcher.exception import StrategyDoesNotApply

    res: List[Tuple[Tuple, List[Any]]] = []

    def links_at(c) -> List[Tuple[Tuple, Any]]:
        out = []
        if empty(c):
            return out
        for s in strategies:
            try:
                r = s(c)
                r.children
            except StrategyDoesNotApply:
                continue
            for d, f in forms.one_child_equivalences(r, empty):
                if f.comb_class == c:
                    out.append(((type(s).__name__,) + d, f))
        return out

    def rec(desc, chain):
        if len(chain) >= 2:
            res.append((desc, list(chain)))
        if len(chain) >= depth:
            return
        for d, f in links_at(chain[-1].children[0]):
            rec(desc + ("then",) + d, chain + [f])

    rec(tuple(first_desc), [first])
    return res


def check_rule(acc: Acc, base, N: int, strategies, where: str, with_paths: bool, terms_of=dw.brute_terms, empty=dw.brute_empty, payload=None, extra_links=()) -> None:
    from comb_spec_searcher.strategies.rule import EquivalencePathRule

    if payload is None:
        c = base.comb_class
        payload = {"domain": "W", "class": c.to_jsonable(), "strategy": base.strategy.to_jsonable()}
    acc.count("traces")
    for desc, form in forms.derived_forms(base, empty):
        ok = check_form(acc, base, desc, form, N, terms_of, where, payload)
        if ok:
            acc.nt((rule_desc(base), desc))
            acc.outcome((type(base.strategy).__name__, tuple(d for d in desc if not isinstance(d, int)), len(base.children), len(base.comb_class.extra_parameters)))
    if not with_paths:
        return
    for d0, f0 in forms.one_child_equivalences(base, empty):
        for pdesc, chain in paths_from(d0, f0, strategies, 3, empty):
            try:
                path = EquivalencePathRule(chain)
            except Exception as e:  # noqa: BLE001
                check_form(acc, base, ("path",) + pdesc, e, N, terms_of, where, payload)
                continue
            ok = check_form(acc, base, ("path",) + pdesc, path, N, terms_of, where, dict(payload, path=[str(x) for x in pdesc]))
            if ok:
                acc.nt((rule_desc(base), "path", pdesc))
                acc.outcome(("path", tuple(x for x in pdesc if isinstance(x, str))))


def _worker(arg) -> Acc:
    tier, lo, hi = arg
    acc = Acc()
    N = N_QUICK if tier == "quick" else N_THOROUGH
    classes = forms.w_classes(tier)[lo:hi]
    strategies = forms.w_strategies(tier)
    n = 0
    for base in forms.base_rules(classes, strategies):
        g = dw.gate_rule(base, GATE_N)
        if g:
            raise HarnessError(f"domain gate: {g}")
        check_rule(acc, base, N, strategies, "W", with_paths=True)
        n += 1
        if n == 3 and lo % 7 == 0:
            acc.sample({"class": base.comb_class.sid(), "strategy": repr(base.strategy),
                        "forms": [forms.form_id(d) for d, _ in forms.derived_forms(base)]})
    env.clear_library_caches()
    dw._BF_CACHE.clear()
    return acc


def run(ctx: Ctx) -> None:
    classes = forms.w_classes(ctx.tier)
    ctx.rule = (
        "every non-empty class of the bounded W family (|prefix| <= 3, <= 2 patterns, every choice of <= 2 statistics from "
        "{a,b,ab}) x every applicable strategy (unions with/without normalised statistics and dropped empty children, product "
        "with dropped/merged statistics, inferral, symmetry with renamed statistics) x every derived form incl. equivalence "
        "paths of length <= 3; plus the G family (see mc/domain_g.py); an evaluation is one (form, size); "
        "non-trivial = distinct (rule, form) pairs that could be evaluated"
    )
    ctx.assumptions = ["children enumerated by plain enumeration (mc/domain_w.py brute_terms); strategies pass the domain gate"]
    ctx.bounds = {"classes": len(classes), "sizes": N_QUICK if ctx.quick else N_THOROUGH, "path_length": 3}
    from mc.checks import c09g

    step = 8
    tasks = c09g.g_tasks(ctx, "c09")
    tasks += [(_worker, (ctx.tier, lo, min(lo + step, len(classes)))) for lo in range(0, len(classes), step)]
    tasks += c09g.one_factor_tasks(ctx)
    ctx.pmap_tasks(tasks)


def replay(acc: Acc, payload: dict) -> None:
    if payload.get("domain") == "G1":
        from mc.checks import c09g

        c09g.check_one_factor(acc, payload["grammar"])
        return
    if payload.get("domain") == "G":
        from mc.checks import c09g

        c09g.replay_g(acc, payload, "c09")
        return
    from comb_spec_searcher.strategies.strategy import AbstractStrategy

    c = dw.W.from_dict(payload["class"])
    strat = AbstractStrategy.from_dict(dict(payload["strategy"]))
    base = strat(c)
    check_rule(acc, base, N_QUICK, forms.w_strategies("quick"), "replay", with_paths=True)
