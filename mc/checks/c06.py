"""C06 — equivalence classes are exactly the strongly connected components.

E1: explicit-state search over the real EquivalenceDB.  Alphabet over N labels:
two-way edge, one-way edge, mark verified, connect cycles.  States are
deduplicated on the complete internal state together with the reference model
(edge set, marks, dirty flag).  Queries are evaluated in every state in which no
edge of either kind was added since the last cycle detection, on a copy (queries
compress paths).
"""

from __future__ import annotations

from typing import Dict, FrozenSet, List, Optional, Set, Tuple

from mc.core import Acc, Ctx, HarnessError
from mc.oracles import scc_partition

LEVEL = "model_checking"

EXPECTED_ATTRS = {
    "parents",
    "weights",
    "verified_roots",
    "vertices",
    "_one_way_vertices",
    "func_times",
    "func_calls",
}


def ops_for(n: int) -> List[Tuple]:
    ops: List[Tuple] = []
    for a in range(n):
        ops.append(("v", a))
    ops.append(("c",))
    for a in range(n):
        for b in range(a + 1, n):
            ops.append(("t", a, b))
    for a in range(n):
        for b in range(n):
            if a != b:
                ops.append(("o", a, b))
    return ops


def clone(db):
    from collections import defaultdict

    from comb_spec_searcher.equiv_db import EquivalenceDB

    if set(vars(db)) != EXPECTED_ATTRS:
        raise HarnessError(f"EquivalenceDB has unexpected attributes {set(vars(db)) ^ EXPECTED_ATTRS}")
    new = EquivalenceDB()
    new.parents = dict(db.parents)
    new.weights = dict(db.weights)
    new.verified_roots = set(db.verified_roots)
    new.vertices = defaultdict(set, {k: set(v) for k, v in db.vertices.items()})
    new._one_way_vertices = defaultdict(set, {k: set(v) for k, v in db._one_way_vertices.items()})
    return new


def canon(db) -> Tuple:
    return (
        tuple(sorted(db.parents.items())),
        tuple(sorted(db.weights.items())),
        tuple(sorted(db.verified_roots)),
        tuple(sorted((k, tuple(sorted(v))) for k, v in db.vertices.items() if v)),
        tuple(sorted((k, tuple(sorted(v))) for k, v in db._one_way_vertices.items() if v)),
    )


class Model:
    __slots__ = ("edges", "marks", "dirty")

    def __init__(self, edges=frozenset(), marks=frozenset(), dirty=False):
        self.edges: FrozenSet[Tuple[int, int]] = edges
        self.marks: FrozenSet[int] = marks
        self.dirty = dirty

    def key(self):
        return (tuple(sorted(self.edges)), tuple(sorted(self.marks)), self.dirty)

    def apply(self, op) -> "Model":
        if op[0] == "v":
            return Model(self.edges, self.marks | {op[1]}, self.dirty)
        if op[0] == "c":
            return Model(self.edges, self.marks, False)
        if op[0] == "t":
            return Model(self.edges | {(op[1], op[2]), (op[2], op[1])}, self.marks, True)
        return Model(self.edges | {(op[1], op[2])}, self.marks, True)


def apply_real(db, op) -> None:
    if op[0] == "v":
        db.set_verified(op[1])
    elif op[0] == "c":
        db.connect_cycles()
    elif op[0] == "t":
        db.add_two_way_edge(op[1], op[2])
    else:
        db.add_one_way_edge(op[1], op[2])


def check_state(acc: Acc, db, model: Model, n: int, hist: List[Tuple], where: str) -> None:
    """Queries on a copy, compared with plain reachability."""
    q = clone(db)
    scc = scc_partition(range(n), model.edges)
    payload = {"n": n, "history": [list(o) for o in hist]}
    acc.count("evaluations")
    rep: Dict[FrozenSet[int], int] = {}
    for a in range(n):
        block = scc[a]
        want_ver = any(m in block for m in model.marks)
        try:
            got_ver = q.is_verified(a)
            r = q[a]
        except Exception as e:  # noqa: BLE001
            acc.violation("exception", "EquivalenceDB.is_verified", where, f"{type(e).__name__}: {e} after {hist}", payload)
            return
        if got_ver != want_ver:
            acc.violation(
                "is_verified!=scc", "EquivalenceDB.is_verified", where,
                f"after {hist}: is_verified({a})={got_ver}, but marked labels {sorted(model.marks)} and component {sorted(block)}",
                payload,
            )
        if r not in block:
            acc.violation("representative-outside-component", "EquivalenceDB.__getitem__", where,
                          f"after {hist}: db[{a}]={r} not in component {sorted(block)}", payload)
        if rep.setdefault(block, r) != r:
            acc.violation("representative-not-constant", "EquivalenceDB.__getitem__", where,
                          f"after {hist}: two representatives for component {sorted(block)}", payload)
        for b in range(n):
            want = b in block
            got = q.equivalent(a, b)
            if got != want:
                acc.violation(
                    "equivalent!=scc", "EquivalenceDB.equivalent", where,
                    f"after {hist}: equivalent({a},{b})={got}, mutual reachability {want}", payload,
                )
                continue
            if want:
                try:
                    path = q.find_path(a, b)
                except Exception as e:  # noqa: BLE001
                    acc.violation("exception", "EquivalenceDB.find_path", where,
                                  f"{type(e).__name__}: {e} for find_path({a},{b}) after {hist}", payload)
                    continue
                ok = len(path) >= 1 and path[0] == a and path[-1] == b and all(
                    (x, y) in model.edges for x, y in zip(path, path[1:])
                )
                if not ok:
                    acc.violation(
                        "bad-path", "EquivalenceDB.find_path", where,
                        f"after {hist}: find_path({a},{b})={path} is not a path of recorded edges from {a} to {b}",
                        payload,
                    )


def explore(acc: Acc, n: int, depth: int, first_ops: List[Tuple], where: str, states_out: Set[int]) -> None:
    from comb_spec_searcher.equiv_db import EquivalenceDB

    ops = ops_for(n)
    db0 = EquivalenceDB()
    m0 = Model()
    hist0: List[Tuple] = []
    for op in first_ops:
        apply_real(db0, op)
        m0 = m0.apply(op)
        hist0.append(op)
    seen: Set[int] = set()
    frontier = [(db0, m0, hist0)]
    k0 = hash((canon(db0), m0.key()))
    seen.add(k0)
    if not m0.dirty:
        check_state(acc, db0, m0, n, hist0, where)
    level = len(first_ops)
    while frontier and level < depth:
        nxt = []
        for db, model, hist in frontier:
            for op in ops:
                d2 = clone(db)
                try:
                    apply_real(d2, op)
                except Exception as e:  # noqa: BLE001
                    acc.violation("exception", "EquivalenceDB." + {"v": "set_verified", "c": "connect_cycles", "t": "add_two_way_edge", "o": "add_one_way_edge"}[op[0]],
                                  where, f"{type(e).__name__}: {e} after {hist + [op]}", {"n": n, "history": [list(o) for o in hist + [op]]})
                    continue
                acc.count("transitions")
                m2 = model.apply(op)
                key = hash((canon(d2), m2.key()))
                if key in seen:
                    continue
                seen.add(key)
                h2 = hist + [op]
                if not m2.dirty:
                    check_state(acc, d2, m2, n, h2, where)
                    acc.nt(key)
                nxt.append((d2, m2, h2))
        frontier = nxt
        level += 1
    states_out |= seen
    if frontier:
        acc.sample({"labels": n, "depth": depth, "a_deepest_history": [list(o) for o in frontier[len(frontier) // 2][2]]})


def _worker(arg) -> Acc:
    n, depth, first = arg
    acc = Acc()
    states: Set[int] = set()
    explore(acc, n, depth, [tuple(o) for o in first], f"N={n}/D={depth}", states)
    acc.notes["state_hashes"] = states
    return acc


def self_test() -> None:
    p = scc_partition(range(4), [(0, 1), (1, 2), (2, 0), (2, 3)])
    if p[0] != frozenset({0, 1, 2}) or p[3] != frozenset({3}):
        raise HarnessError("scc oracle self test")


def run(ctx: Ctx) -> None:
    self_test()
    plans = [(4, 5)] if ctx.quick else [(4, 7), (5, 5), (3, 9)]
    ctx.rule = (
        "breadth-first search over all histories of add-two-way-edge / add-one-way-edge / mark-verified / connect-cycles "
        "over N labels to depth D, deduplicated on the complete internal state of the real EquivalenceDB together with the "
        "reference model; queries for all ordered pairs in every state with no edge added since the last cycle detection; "
        "non-trivial = distinct clean states in which queries were evaluated"
    )
    ctx.assumptions = ["reachability oracle mc/oracles.py:scc_partition", "labels <= 5, depth as stated"]
    ctx.bounds = {"plans": [{"labels": n, "depth": d} for n, d in plans]}
    shards = []
    for n, d in plans:
        ops = ops_for(n)
        if ctx.quick:
            shards += [(n, d, [list(o)]) for o in ops]
        else:
            shards += [(n, d, [list(o1), list(o2)]) for o1 in ops for o2 in ops]
    ctx.pmap(_worker, shards, chunksize=1)
    hashes = ctx.acc.notes.pop("state_hashes", set())
    ctx.acc.n["states"] = len(hashes)
    ctx.acc.n["traces"] = ctx.acc.n.get("transitions", 0)


def replay(acc: Acc, payload: dict) -> None:
    from comb_spec_searcher.equiv_db import EquivalenceDB

    n = payload["n"]
    db = EquivalenceDB()
    model = Model()
    hist = []
    for op in payload["history"]:
        op = tuple(op)
        apply_real(db, op)
        model = model.apply(op)
        hist.append(op)
        if not model.dirty:
            check_state(acc, db, model, n, hist, "replay")
