"""C06 — equivalence classes are exactly the strongly connected components.

E1: explicit-state search over the real EquivalenceDB.  Alphabet over N labels:
two-way edge, one-way edge, mark verified, connect cycles.  States are
deduplicated on the complete internal state together with the reference model
(edge set, marks, dirty flag).  Queries are evaluated in every state in which no
edge of either kind was added since the last cycle detection, on a copy (queries
compress paths).
"""

from __future__ import annotations

from typing import Dict, FrozenSet, List, Optional, Set, Tuple

from mc.core import Acc, Ctx, HarnessError
from mc.oracles import scc_partition

LEVEL = "model_checking"

EXPECTED_ATTRS = {
    "parents",
    "weights",
    "verified_roots",
    "vertices",
    "_one_way_vertices",
    "func_times",
    "func_calls",
}


def ops_for(n: int) -> List[Tuple]:
    ops: List[Tuple] = []
    for a in range(n):
        ops.append(("v", a))
    ops.append(("c",))
    for a in range(n):
        for b in range(a + 1, n):
            ops.append(("t", a, b))
    for a in range(n):
        for b in range(n):
            if a != b:
                ops.append(("o", a, b))
    return ops


def clone(db):
    from collections import defaultdict

    from comb_spec_searcher.equiv_db import EquivalenceDB

    if set(vars(db)) != EXPECTED_ATTRS:
        raise HarnessError(f"EquivalenceDB has unexpected attributes {set(vars(db)) ^ EXPECTED_ATTRS}")
    new = EquivalenceDB()
    new.parents = dict(db.parents)
    new.weights = dict(db.weights)
    new.verified_roots = set(db.verified_roots)
    new.vertices = defaultdict(set, {k: set(v) for k, v in db.vertices.items()})
    new._one_way_vertices = defaultdict(set, {k: set(v) for k, v in db._one_way_vertices.items()})
    return new


def canon(db) -> Tuple:
    return (
        tuple(sorted(db.parents.items())),
        tuple(sorted(db.weights.items())),
        tuple(sorted(db.verified_roots)),
        tuple(sorted((k, tuple(sorted(v))) for k, v in db.vertices.items() if v)),
        tuple(sorted((k, tuple(sorted(v))) for k, v in db._one_way_vertices.items() if v)),
    )


class Model:
    __slots__ = ("edges", "marks", "dirty")

    def __init__(self, edges=frozenset(), marks=frozenset(), dirty=False):
        self.edges: FrozenSet[Tuple[int, int]] = edges
        self.marks: FrozenSet[int] = marks
        self.dirty = dirty

    def key(self):
        return (tuple(sorted(self.edges)), tuple(sorted(self.marks)), self.dirty)

    def apply(self, op) -> "Model":
        if op[0] == "v":
            return Model(self.edges, self.marks | {op[1]}, self.dirty)
        if op[0] == "c":
            return Model(self.edges, self.marks, False)
        if op[0] == "t":
            return Model(self.edges | {(op[1], op[2]), (op[2], op[1])}, self.marks, True)
        return Model(self.edges | {(op[1], op[2])}, self.marks, True)


def apply_real(db, op) -> None:
    if op[0] == "v":
        db.set_verified(op[1])
    elif op[0] == "c":
        db.connect_cycles()
    elif op[0] == "t":
        db.add_two_way_edge(op[1], op[2])
    else:
        db.add_one_way_edge(op[1], op[2])


def check_state(acc: Acc, db, model: Model, n: int, hist: List[Tuple], where: str) -> None:
    """Queries on a copy, compared with plain reachability."""
    q = clone(db)
    scc = scc_partition(range(n), model.edges)
    payload = {"n": n, "history": [list(o) for o in hist]}
    acc.count("evaluations")
    rep: Dict[FrozenSet[int], int] = {}
    for a in range(n):
        block = scc[a]
        want_ver = any(m in block for m in model.marks)
        try:
            got_ver = q.is_verified(a)
            r = q[a]
        except Exception as e:  # noqa: BLE001
            acc.violation("exception", "EquivalenceDB.is_verified", where, f"{type(e).__name__}: {e} after {hist}", payload)
            return
        if got_ver != want_ver:
            acc.violation(
                "is_verified!=scc", "EquivalenceDB.is_verified", where,
                f"after {hist}: is_verified({a})={got_ver}, but marked labels {sorted(model.marks)} and component {sorted(block)}",
                payload,
            )
        if r not in block:
            acc.violation("representative-outside-component", "EquivalenceDB.__getitem__", where,
                          f"after {hist}: db[{a}]={r} not in component {sorted(block)}", payload)
        if rep.setdefault(block, r) != r:
            acc.violation("representative-not-constant", "EquivalenceDB.__getitem__", where,
                          f"after {hist}: two representatives for component {sorted(block)}", payload)
        for b in range(n):
            want = b in block
            got = q.equivalent(a, b)
            if got != want:
                acc.violation(
                    "equivalent!=scc", "EquivalenceDB.equivalent", where,
                    f"after {hist}: equivalent({a},{b})={got}, mutual reachability {want}", payload,
                )
                continue
            if want:
                try:
                    path = q.find_path(a, b)
                except Exception as e:  # noqa: BLE001
                    acc.violation("exception", "EquivalenceDB.find_path", where,
                                  f"{type(e).__name__}: {e} for find_path({a},{b}) after {hist}", payload)
                    continue
                ok = len(path) >= 1 and path[0] == a and path[-1] == b and all(
                    (x, y) in model.edges for x, y in zip(path, path[1:])
                )
                if not ok:
                    acc.violation(
                        "bad-path", "EquivalenceDB.find_path", where,
                        f"after {hist}: find_path({a},{b})={path} is not a path of recorded edges from {a} to {b}",
                        payload,
                    )


def rebuild(n: int, hist):
    from comb_spec_searcher.equiv_db import EquivalenceDB

    db = EquivalenceDB()
    model = Model()
    for op in hist:
        apply_real(db, op)
        model = model.apply(op)
    return db, model


def _expand(arg):
    """Expand a chunk of frontier states (given as histories)."""
    n, hists = arg
    acc = Acc()
    ops = ops_for(n)
    where = f"N={n}"
    out = []
    local = set()
    for hist in hists:
        hist = [tuple(o) for o in hist]
        db, model = rebuild(n, hist)
        for op in ops:
            d2 = clone(db)
            try:
                apply_real(d2, op)
            except Exception as e:  # noqa: BLE001
                acc.violation("exception", "EquivalenceDB." + {"v": "set_verified", "c": "connect_cycles", "t": "add_two_way_edge", "o": "add_one_way_edge"}[op[0]],
                              where, f"{type(e).__name__}: {e} after {hist + [op]}", {"n": n, "history": [list(o) for o in hist + [op]]})
                continue
            acc.count("transitions")
            m2 = model.apply(op)
            key = hash((canon(d2), m2.key()))
            if key in local:
                continue
            local.add(key)
            h2 = hist + [op]
            out.append((key, h2, (d2, m2)))
    # queries are evaluated by whoever first produced the state in this chunk; the parent
    # deduplicates globally, so a state may be evaluated by several chunks (harmless)
    succ = []
    for key, h2, (d2, m2) in out:
        if not m2.dirty:
            check_state(acc, d2, m2, n, h2, where)
            acc.nt(key)
        succ.append((key, h2))
    if hists and len(hists[0]) % 2 == 1 and out:
        acc.sample({"labels": n, "history": [list(o) for o in out[len(out) // 2][1]]})
    return acc, succ


def _expand_n(n):
    def f(hists):
        return _expand((n, hists))

    return f


class _Expander:
    def __init__(self, n: int):
        self.n = n

    def __call__(self, hists):
        return _expand((self.n, hists))


def self_test() -> None:
    p = scc_partition(range(4), [(0, 1), (1, 2), (2, 0), (2, 3)])
    if p[0] != frozenset({0, 1, 2}) or p[3] != frozenset({3}):
        raise HarnessError("scc oracle self test")


def run(ctx: Ctx) -> None:
    self_test()
    plans = [(4, 6), (3, 8)] if ctx.quick else [(4, 7), (5, 6), (3, 10)]
    ctx.rule = (
        "breadth-first search over all histories of add-two-way-edge / add-one-way-edge / mark-verified / connect-cycles "
        "over N labels to depth D, deduplicated on the complete internal state of the real EquivalenceDB together with the "
        "reference model; queries for all ordered pairs in every state with no edge added since the last cycle detection; "
        "non-trivial = distinct clean states in which queries were evaluated"
    )
    ctx.assumptions = ["reachability oracle mc/oracles.py:scc_partition", "labels <= 5, depth as stated"]
    ctx.bounds = {"plans": [{"labels": n, "depth": d} for n, d in plans]}
    total_states = 0
    closed = {}
    for n, d in plans:
        from comb_spec_searcher.equiv_db import EquivalenceDB

        db0 = EquivalenceDB()
        k0 = hash((canon(db0), Model().key()))
        check_state(ctx.acc, db0, Model(), n, [], f"N={n}")
        total_states += ctx.bfs([(k0, [])], _Expander(n), d, chunk=300)
        closed[f"N={n},D={d}"] = ctx.bfs_closed
    ctx.acc.n["states"] = total_states
    ctx.acc.n["traces"] = ctx.acc.n.get("transitions", 0)
    ctx.bounds["closed"] = closed


def replay(acc: Acc, payload: dict) -> None:
    from comb_spec_searcher.equiv_db import EquivalenceDB

    n = payload["n"]
    db = EquivalenceDB()
    model = Model()
    hist = []
    for op in payload["history"]:
        op = tuple(op)
        apply_real(db, op)
        model = model.apply(op)
        hist.append(op)
        if not model.dirty:
            check_state(acc, db, model, n, hist, "replay")
