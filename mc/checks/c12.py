"""C12 — a constructed bijection is a size-preserving bijection with a true inverse.

E3: all ordered pairs of specifications from a bounded family (W corpus under three
rule databases with and without a statistic, G corpus, the same after a JSON round
trip).  Every ordered pair is judged independently: if Bijection.construct returns
an object its map must send the objects of the first root one-to-one onto the
objects of the second for every size <= N and inverse_map must undo it both ways;
Isomorphism.check must be symmetric, and reflexive when all verified classes are atoms.
"""

from __future__ import annotations

import json
from typing import Any, Dict, List, Optional, Tuple

from mc import domain_g as dg
from mc import domain_w as dw
from mc import env
from mc.core import Acc, Ctx, HarnessError, deadline
from mc.checks.c07 import brute_objects
from mc.search import Cfg, GCfg, call_site, execute
from mc.specs import spec_signature

LEVEL = "exploration"
N_QUICK, N_THOROUGH = 6, 7


def spec_cfgs(tier: str) -> List[Any]:
    res: List[Any] = []
    classes = dw.start_classes("quick")
    if tier != "quick":
        classes = classes + [c for c in dw.start_classes("thorough") if c not in classes and not c.prefix and len(c.alphabet) == 2]
    for c in classes:
        for db in ("RuleDB", "Forget", "Forest"):
            res.append(Cfg.of(c, "base", db))
        res.append(Cfg.of(c.with_(stats=("a",)), "base", "RuleDB"))
        # leaves verified by a strategy that is not the atom strategy (non-atomic verified classes)
        # facing atoms and decomposed classes of the other specifications
        for pk in ("ver:a,b", "ver:a", "ver:aa,b"):
            res.append(Cfg.of(c, pk, "RuleDB"))
        if tier != "quick":
            res.append(Cfg.of(c, "inf1", "RuleDB"))
            res.append(Cfg.of(c.with_(stats=("b",)), "norm", "RuleDB"))
    if tier == "quick":
        # patterns of length 3: the smallest family in which matched children of an abandoned pairing were seen
        from itertools import combinations, product

        words3 = ["".join(w) for w in product("ab", repeat=3)]
        for p in [(w,) for w in words3] + list(combinations(words3, 2)):
            res.append(Cfg.of(dw.W("", p, "ab"), "base", "RuleDB"))
    gs = dg.grammars("one")
    if tier == "quick":
        gs = gs[:120]
    # two nonterminals, the second with a single one-symbol alternative: a class that is only
    # *equivalent* to an atom (or to the first nonterminal) sits where the one-nonterminal
    # grammars have the atom itself
    two = [g for g in dg.grammars("two") if len(g[1]) == 1 and len(g[1][0]) == 1]
    if tier != "quick":
        two += [g for g in dg.grammars("two") if g not in two and len(g[1]) == 1][:200]
    for g in list(gs) + two:
        res.append(GCfg(g, (), "g", "RuleDB"))
    # regular languages decomposed from the left or from the right (R-domain): mirror images and
    # letter swaps give many isomorphic pairs whose bijection is not the identity on words
    from mc import domain_r as dr
    from mc.search import RCfg

    for d in dr.languages(2):
        for pk in ("rL", "rR") if tier == "quick" else ("rL", "rR", "r", "r2R"):
            res.append(RCfg.of(d, pk, "RuleDB"))
    return res


def build_spec(cfgj: dict):
    cfg = Cfg.from_json(cfgj)
    ex = execute(cfg, (), slice_default=0, horizon=80)
    return cfg, (ex.spec if ex.outcome == "spec" else None)


def reload_spec(spec):
    from comb_spec_searcher import CombinatorialSpecification

    return CombinatorialSpecification.from_dict(json.loads(json.dumps(spec.to_jsonable())))


def all_verified_atoms(spec) -> bool:
    from comb_spec_searcher.strategies.rule import VerificationRule

    for c, r in spec.rules_dict.items():
        if isinstance(r, VerificationRule) and not c.is_atom() and not c.is_empty():
            return False
    return True


def check_pair(acc: Acc, ca, sa, cb, sb, N: int, payload: dict, reloaded: bool = False) -> None:
    from comb_spec_searcher.isomorphism import Bijection, Isomorphism

    where = f"{ca.sid()} -> {cb.sid()}" + (" (reloaded)" if reloaded else "")
    acc.count("evaluations")
    try:
        with deadline(60):
            fwd = Isomorphism.check(sa, sb)
            bwd = Isomorphism.check(sb, sa)
            bij = Bijection.construct(sa, sb)
    except Exception as e:  # noqa: BLE001
        acc.violation("exception", call_site(e), where, f"{type(e).__name__}: {str(e)[:200]}", payload)
        return
    if fwd != bwd:
        acc.violation("check-not-symmetric", "Isomorphism._are_isomorphic", where, f"check(s,t)={fwd} but check(t,s)={bwd}", payload)
    if (bij is not None) != fwd:
        acc.violation("construct-vs-check", "Bijection.construct", where, f"check={fwd}, construct returned {'an object' if bij is not None else 'None'}", payload)
    if bij is None:
        return
    acc.nt((spec_signature(sa), spec_signature(sb)))
    ra, rb = ca.start(), cb.start()
    for n in range(N + 1):
        dom = brute_objects(ra, n)
        cod = brute_objects(rb, n)
        images = []
        for o in dom:
            try:
                with deadline(30):
                    img = bij.map(o)
                    back = bij.inverse_map(img) if img in cod else None
            except NotImplementedError:
                acc.count("pairs_without_object_maps")
                return
            except Exception as e:  # noqa: BLE001
                acc.violation("map-raises", "Bijection.map", where,
                              f"a bijection object is returned but map({o}) raises {type(e).__name__}: {str(e)[:120]} (size {n}: {len(dom)} vs {len(cod)} objects)", payload)
                return
            if img not in cod:
                acc.violation("image-outside-codomain", "Bijection.map", where, f"map({o}) = {img} is not an object of size {n} of the second class", payload)
                return
            if back != o:
                acc.violation("inverse-not-inverse", "Bijection.inverse_map", where, f"inverse_map(map({o})) = {back}", payload)
                return
            images.append(img)
        if len(set(images)) != len(images):
            acc.violation("not-injective", "Bijection.map", where, f"size {n}: two objects have the same image", payload)
            return
        if set(images) != set(cod):
            acc.violation("not-onto", "Bijection.map", where, f"size {n}: {len(dom)} objects mapped onto {len(set(images))} of {len(cod)}", payload)
            return
        for o2 in cod:
            try:
                if bij.map(bij.inverse_map(o2)) != o2:
                    acc.violation("inverse-not-inverse", "Bijection.inverse_map", where, f"map(inverse_map({o2})) != {o2}", payload)
                    return
            except Exception as e:  # noqa: BLE001
                acc.violation("map-raises", "Bijection.inverse_map", where, f"inverse_map({o2}) raises {type(e).__name__}: {str(e)[:120]}", payload)
                return
    acc.outcome(("bijection", len(sa.rules_dict), len(sb.rules_dict)))


def _worker(arg) -> Acc:
    tier, cfgjs, i_lo, i_hi = arg
    acc = Acc()
    N = N_QUICK if tier == "quick" else N_THOROUGH
    specs = []
    seen = set()
    for cj in cfgjs:
        cfg, sp = build_spec(cj)
        if sp is None:
            continue
        sig = spec_signature(sp)
        if sig in seen:
            continue
        seen.add(sig)
        specs.append((cfg, sp, cj))
    acc.notes["distinct_specifications"] = len(specs) if i_lo == 0 else 0
    from comb_spec_searcher.isomorphism import Isomorphism

    for i in range(i_lo, min(i_hi, len(specs))):
        ca, sa, ja = specs[i]
        acc.count("traces")
        if all_verified_atoms(sa):
            try:
                if not Isomorphism.check(sa, sa):
                    acc.violation("check-not-reflexive", "Isomorphism._are_isomorphic", ca.sid(), "check(s, s) is False", {"a": ja, "b": ja, "reloaded": False})
            except Exception as e:  # noqa: BLE001
                acc.violation("exception", call_site(e), ca.sid(), f"check(s,s): {type(e).__name__}: {str(e)[:200]}", {"a": ja, "b": ja, "reloaded": False})
        try:
            ra = reload_spec(sa)
        except Exception:  # noqa: BLE001  (C18's business)
            ra = None
        for j, (cb, sb, jb) in enumerate(specs):
            payload = {"a": ja, "b": jb, "reloaded": False}
            check_pair(acc, ca, sa, cb, sb, N, payload)
            if ra is not None and (i + j) % 7 == 0:
                try:
                    rb = reload_spec(sb)
                except Exception:  # noqa: BLE001
                    continue
                check_pair(acc, ca, ra, cb, rb, N, dict(payload, reloaded=True), reloaded=True)
        if i % 17 == 0:
            acc.sample({"first": ca.sid(), "second": "every specification of the family", "family_size": len(specs)})
    env.clear_library_caches()
    return acc


def run(ctx: Ctx) -> None:
    cfgs = [c.to_json() for c in spec_cfgs(ctx.tier)]
    ctx.rule = (
        "all ordered pairs of the distinct specifications found for the stated configurations (W start classes under RuleDB, "
        "RuleDBForgetStrategy and RuleDBForest, with and without a statistic; G grammars), each ordered pair judged on its own; "
        "every 7th pair again after a JSON round trip of both; non-trivial = distinct ordered pairs for which a bijection "
        "object was returned and validated object by object"
    )
    ctx.assumptions = ["plain enumeration of the objects of both root classes", "sizes <= %d" % (N_QUICK if ctx.quick else N_THOROUGH)]
    ctx.bounds = {"configurations": len(cfgs), "sizes": N_QUICK if ctx.quick else N_THOROUGH}
    nshards = 32
    per = (len(cfgs) + nshards - 1) // nshards
    ctx.pmap(_worker, [(ctx.tier, cfgs, k * per, (k + 1) * per) for k in range(nshards)])
    ctx.bounds["distinct_specifications"] = ctx.acc.notes.pop("distinct_specifications", None)


def replay(acc: Acc, payload: dict) -> None:
    ca, sa = build_spec(payload["a"])
    cb, sb = build_spec(payload["b"])
    if sa is None or sb is None:
        return
    if payload.get("reloaded"):
        sa, sb = reload_spec(sa), reload_spec(sb)
    if payload["a"] == payload["b"] and all_verified_atoms(sa):
        from comb_spec_searcher.isomorphism import Isomorphism

        if not Isomorphism.check(sa, sa):
            acc.violation("check-not-reflexive", "Isomorphism._are_isomorphic", ca.sid(), "check(s, s) is False", payload)
    check_pair(acc, ca, sa, cb, sb, N_QUICK, payload, reloaded=bool(payload.get("reloaded")))
