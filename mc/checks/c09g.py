"""G-domain part of C09 / C10: rule forms over enumerated proper grammars."""

from __future__ import annotations

from typing import Any, List, Tuple

from mc import domain_g as dg
from mc import env
from mc.core import Acc, Ctx, HarnessError

GATE_N = 4


def g_classes(g, stats_list) -> List[dg.G]:
    res = []
    for st in stats_list:
        for i, alts in enumerate(g):
            res.append(dg.G(g, "N", i, st))
            for j in range(len(alts)):
                res.append(dg.G(g, "A", (i, j), st))
    return res


def families(tier: str) -> List[Tuple[str, Any]]:
    if tier == "quick":
        return [("one", [(), ("a",), ("a", "ab")]), ("two", [(), ("a",)])]
    return [("one", [(), ("a",), ("a", "b"), ("a", "ab")]), ("two", [(), ("a",)]), ("two_b", [(), ("a", "ab")]), ("three", [()])]


def _worker(arg) -> Acc:
    which, tier, family, stats_list, lo, hi = arg
    from mc.checks import c09, c10
    from comb_spec_searcher.exception import StrategyDoesNotApply

    acc = Acc()
    N = 6 if tier == "quick" else 7
    strategies = dg.g_strategies()
    gs = dg.grammars(family)[lo:hi]
    n = 0
    for g in gs:
        for c in g_classes(g, [tuple(s) for s in stats_list]):
            if c.is_empty():
                continue
            for s in strategies:
                try:
                    base = s(c)
                    base.children
                except StrategyDoesNotApply:
                    continue
                if which == "c09":
                    e = dg.gate_rule(base, GATE_N)
                    if e:
                        raise HarnessError(f"G domain gate: {e} ({base.strategy!r} on {c!r})")
                payload = {"domain": "G", "class": c.to_jsonable(), "strategy": s.to_jsonable()}
                if which == "c09":
                    c09.check_rule(acc, base, N, strategies, "G", with_paths=True, terms_of=dg.brute_terms, empty=dg.brute_empty, payload=payload)
                else:
                    c10.check_rule(acc, base, N, strategies, with_paths=True, terms_of=dg.brute_terms, empty=dg.brute_empty, payload=payload)
                n += 1
                if n == 5 and lo % 400 == 0:
                    acc.sample({"grammar": c.sid(), "strategy": repr(s), "children": [x.sid() for x in base.children]})
        dg._TREES.clear()
        env.clear_library_caches()
    return acc


def run_g(ctx: Ctx, which: str) -> None:
    shards = []
    sizes = {}
    for family, stats_list in families(ctx.tier):
        total = len(dg.grammars(family))
        sizes[family] = total
        step = 40
        for lo in range(0, total, step):
            shards.append((which, ctx.tier, family, [list(s) for s in stats_list], lo, min(lo + step, total)))
    ctx.bounds["grammar_families"] = sizes
    ctx.pmap(_worker, shards)


def replay_g(acc: Acc, payload: dict, which: str) -> None:
    from comb_spec_searcher.strategies.strategy import AbstractStrategy
    from mc.checks import c09, c10

    c = dg.G.from_dict(payload["class"])
    s = AbstractStrategy.from_dict(dict(payload["strategy"]))
    base = s(c)
    if which == "c09":
        c09.check_rule(acc, base, 6, dg.g_strategies(), "replay", with_paths=True, terms_of=dg.brute_terms, empty=dg.brute_empty, payload=payload)
    else:
        c10.check_rule(acc, base, 6, dg.g_strategies(), with_paths=True, terms_of=dg.brute_terms, empty=dg.brute_empty, payload=payload)
