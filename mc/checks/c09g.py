"""G-domain part of C09 / C10: rule forms over enumerated proper grammars."""

from __future__ import annotations

from typing import Any, List, Tuple

from mc import domain_g as dg
from mc import env
from mc.core import Acc, Ctx, HarnessError

GATE_N = 4


def g_classes(g, stats_list) -> List[dg.G]:
    res = []
    for st in stats_list:
        for i, alts in enumerate(g):
            res.append(dg.G(g, "N", i, st))
            for j in range(len(alts)):
                res.append(dg.G(g, "A", (i, j), st))
    return res


def families(tier: str) -> List[Tuple[str, Any]]:
    if tier == "quick":
        return [("one", [(), ("a",), ("a", "ab")]), ("two", [(), ("a",)])]
    return [("one", [(), ("a",), ("a", "b"), ("a", "ab")]), ("two", [(), ("a",)]), ("two_b_s", [(), ("a", "ab")]), ("three_s", [()])]


def _worker(arg) -> Acc:
    which, tier, family, stats_list, lo, hi = arg
    from mc.checks import c09, c10
    from comb_spec_searcher.exception import StrategyDoesNotApply

    acc = Acc()
    N = 6 if tier == "quick" else 7
    strategies = dg.g_strategies()
    gs = dg.grammars(family)[lo:hi]
    n = 0
    for g in gs:
        for c in g_classes(g, [tuple(s) for s in stats_list]):
            if c.is_empty():
                continue
            for s in strategies:
                try:
                    base = s(c)
                    base.children
                except StrategyDoesNotApply:
                    continue
                if which == "c09":
                    e = dg.gate_rule(base, GATE_N)
                    if e:
                        raise HarnessError(f"G domain gate: {e} ({base.strategy!r} on {c!r})")
                payload = {"domain": "G", "class": c.to_jsonable(), "strategy": s.to_jsonable()}
                if which == "c09":
                    c09.check_rule(acc, base, N, strategies, "G", with_paths=True, terms_of=dg.brute_terms, empty=dg.brute_empty, payload=payload)
                else:
                    c10.check_rule(acc, base, N, strategies, with_paths=True, terms_of=dg.brute_terms, empty=dg.brute_empty, payload=payload)
                n += 1
                if n == 5 and lo % 400 == 0:
                    acc.sample({"grammar": c.sid(), "strategy": repr(s), "children": [x.sid() for x in base.children]})
        dg._TREES.clear()
        env.clear_library_caches()
    return acc


def g_tasks(ctx: Ctx, which: str):
    tasks = []
    sizes = {}
    for family, stats_list in families(ctx.tier):
        total = len(dg.grammars(family))
        sizes[family] = total
        step = 10
        for lo in range(0, total, step):
            tasks.append((_worker, (which, ctx.tier, family, [list(s) for s in stats_list], lo, min(lo + step, total))))
    ctx.bounds["grammar_families"] = sizes
    return tasks


def run_g(ctx: Ctx, which: str) -> None:
    ctx.pmap_tasks(g_tasks(ctx, which))


def replay_g(acc: Acc, payload: dict, which: str) -> None:
    from comb_spec_searcher.strategies.strategy import AbstractStrategy
    from mc.checks import c09, c10

    c = dg.G.from_dict(payload["class"])
    s = AbstractStrategy.from_dict(dict(payload["strategy"]))
    base = s(c)
    if which == "c09":
        c09.check_rule(acc, base, 6, dg.g_strategies(), "replay", with_paths=True, terms_of=dg.brute_terms, empty=dg.brute_empty, payload=payload)
    else:
        c10.check_rule(acc, base, 6, dg.g_strategies(), with_paths=True, terms_of=dg.brute_terms, empty=dg.brute_empty, payload=payload)


# ---------------------------------------------------------------------------
# dedicated sub-run for the known finding D10: one-factor products


def check_one_factor(acc: Acc, grammar_json) -> None:
    """Search with a pack whose product strategy also factors one-symbol alternatives,
    then count with the returned specification."""
    from mc.search import GCfg, execute, call_site
    from mc.specs import nz

    g = tuple(tuple(tuple(a) for a in alts) for alts in grammar_json)
    cfg = GCfg(g, (), "g+onefactor", "RuleDB")
    payload = {"domain": "G1", "grammar": [[list(a) for a in alts] for alts in g]}
    ex = execute(cfg, (), horizon=80)
    acc.count("traces")
    if ex.outcome == "exception":
        acc.violation("one-factor-product", ex.site, cfg.sid(), f"search: {type(ex.exc).__name__}: {str(ex.exc)[:200]}", payload)
        return
    if ex.outcome != "spec":
        return
    try:
        for n in range(6):
            if nz(ex.spec.get_terms(n)) != nz(cfg.brute_terms(n)):
                acc.violation("wrong-terms", "one-factor-product", cfg.sid(), f"size {n}", payload)
                return
    except AssertionError as e:
        acc.violation("one-factor-product", call_site(e), cfg.sid(),
                      f"counting with a specification that contains a one-factor product: {type(e).__name__} in {call_site(e)}", payload)
        return
    except Exception as e:  # noqa: BLE001
        acc.violation("exception-while-counting", call_site(e), cfg.sid(), f"{type(e).__name__}: {str(e)[:200]}", payload)
        return
    acc.nt(("one-factor", cfg.sid()))


def _worker_one_factor(arg) -> Acc:
    acc = Acc()
    for gj in arg:
        check_one_factor(acc, gj)
    dg._TREES.clear()
    env.clear_library_caches()
    return acc


def one_factor_tasks(ctx: Ctx):
    gs = [g for g in dg.grammars("one") if any(len(alt) == 1 for alts in g for alt in alts)]
    ctx.bounds["one_factor_grammars"] = len(gs)
    items = [[[list(a) for a in alts] for alts in g] for g in gs]
    return [(_worker_one_factor, items[i : i + 20]) for i in range(0, len(items), 20)]


def run_one_factor(ctx: Ctx) -> None:
    ctx.pmap_tasks(one_factor_tasks(ctx))
