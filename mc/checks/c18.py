"""C18 — JSON round trips preserve specifications, rules, packs, strategies, bijections.

E3 over everything serialisable in the corpus: every specification of the search
lattice (all rule forms occur), every pack of the lattice, every strategy instance
however it was created, every rule form of the C09 enumeration, every bijection
constructed between corpus specifications.
"""

from __future__ import annotations

import copy
import json
import pickle
from typing import Any, Dict, List, Tuple

from mc import domain_g as dg
from mc import domain_w as dw
from mc import env
from mc import forms
from mc.core import Acc, Ctx, deadline
from mc.checks import c09, c09g
from mc.checks.c07 import brute_objects
from mc.checks.common_search import lattice
from mc.search import Cfg, call_site, execute
from mc.specs import nz, spec_signature

LEVEL = "exploration"


def rt(x):
    return json.loads(json.dumps(x))


def rule_kinds(spec) -> Tuple[str, ...]:
    from comb_spec_searcher.strategies.rule import EquivalencePathRule, ReverseRule

    kinds = set()
    for r in spec.rules_dict.values():
        kinds.add(type(r).__name__)
        if isinstance(r, EquivalencePathRule):
            for x in r.rules:
                kinds.add("path:" + type(x).__name__)
                if isinstance(getattr(x, "original_rule", None), ReverseRule):
                    kinds.add("path:equiv-of-reverse")
        if type(r.strategy).__name__ == "EmptyStrategy":
            kinds.add("empty-rule")
    return tuple(sorted(kinds))


def check_spec(acc: Acc, cfg, spec, payload: dict) -> None:
    from comb_spec_searcher import CombinatorialSpecification

    where = cfg.sid()
    acc.count("evaluations")
    sig0 = spec_signature(spec)
    try:
        with deadline(60):
            back = CombinatorialSpecification.from_dict(rt(spec.to_jsonable()))
    except Exception as e:  # noqa: BLE001
        acc.violation("round-trip-raises", call_site(e), where, f"{type(e).__name__}: {str(e)[:200]}", payload)
        return
    try:
        eq = (back == spec) and (spec == back)
    except Exception as e:  # noqa: BLE001
        acc.violation("round-trip-raises", call_site(e), where, f"comparing: {type(e).__name__}: {str(e)[:200]}", payload)
        return
    if not eq:
        diff = []
        if back.root != spec.root:
            diff.append("root")
        for c in set(spec.rules_dict) | set(back.rules_dict):
            a, b = spec.rules_dict.get(c), back.rules_dict.get(c)
            if a is None or b is None:
                diff.append(f"rule for {c.sid()} only on one side")
            elif not (a == b):
                diff.append(f"rule for {c.sid()}: {type(a).__name__}/{a.strategy!r} vs {type(b).__name__}/{b.strategy!r}")
        acc.violation("spec!=round-trip", "AbstractStrategy.__eq__" if any("EmptyStrategy" in d for d in diff) else "CombinatorialSpecification.__eq__",
                      where, f"the reloaded specification is not equal to the original: {diff[:3]}", payload)
    try:
        for n in range(6):
            if nz(back.get_terms(n)) != nz(spec.get_terms(n)):
                acc.violation("reloaded-counts-differ", "CombinatorialSpecification.from_dict", where, f"size {n}", payload)
                return
        try:
            for n in range(5):
                a = {k: sorted(map(str, v)) for k, v in spec.get_objects(n).items() if v}
                b = {k: sorted(map(str, v)) for k, v in back.get_objects(n).items() if v}
                if a != b:
                    acc.violation("reloaded-objects-differ", "CombinatorialSpecification.from_dict", where, f"size {n}", payload)
                    return
        except NotImplementedError:
            pass
        ea = sorted(str(e) for e in spec.get_equations())
        eb = sorted(str(e) for e in back.get_equations())
        if ea != eb:
            acc.violation("reloaded-equations-differ", "CombinatorialSpecification.from_dict", where, f"{[x for x in ea if x not in eb][:2]} vs {[x for x in eb if x not in ea][:2]}", payload)
    except Exception as e:  # noqa: BLE001
        acc.violation("round-trip-raises", call_site(e), where, f"using the reloaded specification: {type(e).__name__}: {str(e)[:200]}", payload)
        return
    # the comparison must not depend on whether the specification was used in between
    # (counting may fill caches inside strategies or rules)
    try:
        again = CombinatorialSpecification.from_dict(rt(spec.to_jsonable()))
        if not (again == spec and spec == again):
            acc.violation("spec!=round-trip-after-use", "AbstractStrategy.__eq__", where,
                          "after counting with it, the specification is no longer equal to its JSON round trip", payload)
    except Exception as e:  # noqa: BLE001
        acc.violation("round-trip-raises", call_site(e), where, f"second round trip: {type(e).__name__}: {str(e)[:200]}", payload)
    # the dictionary handed to from_dict directly (no JSON text in between), then dumped again:
    # loading may consume the dictionary it is given, the specification must not be affected
    try:
        first = spec.to_jsonable()
        text = json.dumps(first, sort_keys=True)
        direct = CombinatorialSpecification.from_dict(first)
        if not (direct == spec and spec == direct):
            acc.violation("spec!=round-trip", "CombinatorialSpecification.from_dict", where,
                          "loaded from the dumped dictionary itself (no JSON text in between) the specification is not equal to the original", payload)
        second = json.dumps(spec.to_jsonable(), sort_keys=True)
        if second != text:
            acc.violation("dump-not-repeatable", "CombinatorialSpecification.to_jsonable", where,
                          f"dumping again after the first dictionary was loaded gives another result ({len(text)} vs {len(second)} characters)", payload)
    except Exception as e:  # noqa: BLE001
        acc.violation("round-trip-raises", call_site(e), where, f"direct dictionary round trip: {type(e).__name__}: {str(e)[:200]}", payload)
    acc.nt((where, sig0))
    acc.outcome(rule_kinds(spec))


def _worker_specs(arg) -> Acc:
    cfgj, tier = arg
    cfg = Cfg.from_json(cfgj)
    acc = Acc()
    seen = set()
    for sd in (0, 1):
        ex = execute(cfg, (), slice_default=sd, horizon=60 if tier == "quick" else 150)
        acc.count("traces")
        if ex.outcome != "spec":
            continue
        sig = spec_signature(ex.spec)
        if sig in seen:
            continue
        seen.add(sig)
        check_spec(acc, cfg, ex.spec, {"kind": "spec", "cfg": cfg.to_json(), "slice_default": sd, "horizon": 60 if tier == "quick" else 150})
    # the pack of the configuration
    from comb_spec_searcher.strategies.strategy_pack import StrategyPack

    pack = cfg.make_pack()
    try:
        back = StrategyPack.from_dict(rt(pack.to_jsonable()))
        if not (back == pack):
            acc.violation("pack!=round-trip", "StrategyPack.from_dict", cfg.pack, f"pack {cfg.pack}: {back!r} vs {pack!r}"[:400], {"kind": "pack", "cfg": cfg.to_json()})
    except Exception as e:  # noqa: BLE001
        acc.violation("round-trip-raises", call_site(e), cfg.pack, f"pack {cfg.pack}: {type(e).__name__}: {str(e)[:200]}", {"kind": "pack", "cfg": cfg.to_json()})
    if hash(cfg.sid()) % 211 == 4:
        acc.sample({"specification_of": cfg.sid()})
    env.clear_library_caches()
    dw._BF_CACHE.clear()
    dg._TREES.clear()
    return acc


def strategy_instances() -> List[Tuple[str, List[Any]]]:
    """Groups of instances that have the same kind and settings but were created differently."""
    from comb_spec_searcher.strategies.strategy import AbstractStrategy, AtomStrategy, EmptyStrategy

    groups: List[Tuple[str, List[Any]]] = []

    def variants(name, make, extra=()):
        base = make()
        vs = [base, make(), AbstractStrategy.from_dict(rt(base.to_jsonable())), copy.copy(base), copy.deepcopy(base), pickle.loads(pickle.dumps(base))]
        vs += list(extra)
        groups.append((name, vs))

    variants("EmptyStrategy", EmptyStrategy, [EmptyStrategy[dw.W, dw.Word](), EmptyStrategy[dg.G, dg.Tree]()])
    variants("AtomStrategy", AtomStrategy)
    variants("WordAtom", dw.WordAtom)
    variants("GAtom", dg.GAtom)
    for k in (1, 2):
        for norm in (False, True):
            for de in (False, True):
                variants(f"Expand({k},{norm},{de})", lambda k=k, norm=norm, de=de: dw.Expand(k=k, norm=norm, drop_empty=de))
    for norm in (False, True):
        variants(f"RemoveFront({norm})", lambda norm=norm: dw.RemoveFront(norm=norm))
    variants("RemovePatterns", dw.RemovePatterns)
    variants("NormaliseStats", dw.NormaliseStats)
    variants("SwapLetters", dw.SwapLetters)
    variants("VerifyByPrefix(a,b)", lambda: dw.VerifyByPrefix(("a", "b")))
    variants("VerifyByPrefix(e)", lambda: dw.VerifyByPrefix(("",)))
    # factories are strategies of a pack too (StrategyFactory has its own __eq__)
    variants("ExpandFactory(1,2)", lambda: dw.ExpandFactory((1, 2)))
    variants("ExpandFactory(2)", lambda: dw.ExpandFactory((2,)))
    variants("RuleFactory", dw.RuleFactory)
    variants("RuleFactory(ff)", lambda: dw.RuleFactory(foreign_first=True))
    variants("GenericExpandFactory(1,2)", lambda: dw.GenericExpandFactory((1, 2)), [dw.GenericExpandFactory[dw.W]((1, 2)), dw.GenericExpandFactory[dw.W]()])
    variants("Unfold", dg.Unfold)
    variants("Factor", dg.Factor)
    variants("Unit", dg.Unit)
    return groups


def _worker_strategies(arg) -> Acc:
    acc = Acc()
    groups = strategy_instances()
    for name, vs in groups:
        for i, a in enumerate(vs):
            for j, b in enumerate(vs):
                acc.count("evaluations")
                if not (a == b):
                    acc.violation("strategy-equality-depends-on-creation", "AbstractStrategy.__eq__", name,
                                  f"{name}: instance created by way {i} != instance created by way {j} (0,1 constructor; 2 from_dict; 3 copy; 4 deepcopy; 5 pickle; 6+ subscripted generic alias)",
                                  {"kind": "strategies"})
        acc.nt(name)
    for (n1, v1) in groups:
        for (n2, v2) in groups:
            if n1 != n2 and v1[0] == v2[0]:
                acc.violation("different-strategies-equal", "AbstractStrategy.__eq__", f"{n1}=={n2}", f"{n1} == {n2}", {"kind": "strategies"})
    # a pack holding an instance created through a subscripted alias
    from comb_spec_searcher import StrategyPack

    for fac in (dw.GenericExpandFactory((1, 2)), dw.GenericExpandFactory[dw.W]((1, 2))):
        pack = StrategyPack([], [], [[fac]], [dw.WordAtom()], "gfac")
        acc.count("evaluations")
        try:
            back = StrategyPack.from_dict(rt(pack.to_jsonable()))
            if not (pack == back and back == pack):
                acc.violation("pack!=round-trip", "StrategyPack.from_dict", "gfac" + ("[alias]" if hasattr(fac, "__orig_class__") else ""),
                              f"pack with {fac!r} (created {'through a subscripted alias' if hasattr(fac, '__orig_class__') else 'directly'}) != its JSON round trip", {"kind": "strategies"})
        except Exception as e:  # noqa: BLE001
            acc.violation("round-trip-raises", call_site(e), "gfac", f"{type(e).__name__}: {str(e)[:200]}", {"kind": "strategies"})
    acc.sample({"strategy_groups": [n for n, _ in groups][:8], "ways": "constructor x2, from_dict, copy, deepcopy, pickle, subscripted alias"})
    return acc


def check_form_json(acc: Acc, base, desc, form, terms_of, payload: dict) -> None:
    from comb_spec_searcher.strategies.rule import AbstractRule

    if isinstance(form, Exception):
        return
    fid = forms.form_id(desc)
    kind = "+".join(str(d) for d in desc if not isinstance(d, int))
    where = f"{type(base.strategy).__name__}:{kind}"
    acc.count("evaluations")
    try:
        back = AbstractRule.from_dict(rt(form.to_jsonable()))
    except Exception as e:  # noqa: BLE001
        acc.violation("round-trip-raises", call_site(e), where, f"{c09.rule_desc(base)} form {fid}: {type(e).__name__}: {str(e)[:200]}", payload)
        return
    if not (back == form and form == back) or type(back) is not type(form) or tuple(back.children) != tuple(form.children):
        acc.violation("rule!=round-trip", type(form).__name__ + ".from_dict", where, f"{c09.rule_desc(base)} form {fid}: reloaded {type(back).__name__} with children {[c.sid() for c in back.children]}", payload)
        return
    try:
        c09.bind(form, terms_of)
        c09.bind(back, terms_of)
        for n in range(5):
            if nz(form.get_terms(n)) != nz(back.get_terms(n)):
                acc.violation("reloaded-rule-counts-differ", type(form).__name__ + ".from_dict", where, f"{c09.rule_desc(base)} form {fid}: size {n}", payload)
                return
    except NotImplementedError:
        pass
    except Exception as e:  # noqa: BLE001
        acc.violation("round-trip-raises", call_site(e), where, f"{c09.rule_desc(base)} form {fid}: counting with the reloaded rule: {type(e).__name__}: {str(e)[:200]}", payload)
        return
    acc.nt((c09.rule_desc(base), desc))
    acc.outcome((type(base.strategy).__name__, kind))


def check_rule_json(acc: Acc, base, strategies, terms_of, empty, payload: dict) -> None:
    from comb_spec_searcher.strategies.rule import EquivalencePathRule

    for desc, form in forms.derived_forms(base, empty):
        check_form_json(acc, base, desc, form, terms_of, payload)
    for d0, f0 in forms.one_child_equivalences(base, empty):
        for pdesc, chain in c09.paths_from(d0, f0, strategies, 2, empty):
            try:
                path = EquivalencePathRule(chain)
            except Exception:  # noqa: BLE001
                continue
            check_form_json(acc, base, ("path",) + pdesc, path, terms_of, payload)


def _worker_forms_w(arg) -> Acc:
    tier, lo, hi = arg
    acc = Acc()
    classes = forms.w_classes(tier)[lo:hi]
    strategies = forms.w_strategies(tier)
    for base in forms.base_rules(classes, strategies):
        c = base.comb_class
        check_rule_json(acc, base, strategies, dw.brute_terms, dw.brute_empty, {"kind": "form", "domain": "W", "class": c.to_jsonable(), "strategy": base.strategy.to_jsonable()})
    env.clear_library_caches()
    dw._BF_CACHE.clear()
    return acc


def _worker_forms_g(arg) -> Acc:
    from comb_spec_searcher.exception import StrategyDoesNotApply

    tier, family, lo, hi = arg
    acc = Acc()
    strategies = dg.g_strategies()
    for g in dg.grammars(family)[lo:hi]:
        for c in c09g.g_classes(g, [(), ("a",)]):
            if c.is_empty():
                continue
            for s in strategies:
                try:
                    base = s(c)
                    base.children
                except StrategyDoesNotApply:
                    continue
                check_rule_json(acc, base, strategies, dg.brute_terms, dg.brute_empty, {"kind": "form", "domain": "G", "class": c.to_jsonable(), "strategy": s.to_jsonable()})
        dg._TREES.clear()
    env.clear_library_caches()
    return acc


def _worker_bijections(arg) -> Acc:
    from comb_spec_searcher.isomorphism import Bijection
    from mc.checks import c12

    tier, cfgjs, lo, hi = arg
    acc = Acc()
    specs = []
    seen = set()
    for cj in cfgjs:
        cfg, sp = c12.build_spec(cj)
        if sp is None:
            continue
        sig = spec_signature(sp)
        if sig not in seen:
            seen.add(sig)
            specs.append((cfg, sp, cj))
    for i in range(lo, min(hi, len(specs))):
        ca, sa, ja = specs[i]
        for cb, sb, jb in specs:
            try:
                b = Bijection.construct(sa, sb)
            except Exception:  # noqa: BLE001  (C12's business)
                continue
            if b is None:
                continue
            where = f"{ca.sid()} -> {cb.sid()}"
            payload = {"kind": "bijection", "a": ja, "b": jb}
            acc.count("evaluations")
            try:
                back = Bijection.from_dict(rt(b.to_jsonable()))
                for n in range(6):
                    for o in brute_objects(ca.start(), n):
                        try:
                            want = b.map(o)
                        except Exception:  # noqa: BLE001  (C12's business)
                            raise StopIteration
                        got = back.map(o)
                        if got != want or back.inverse_map(got) != b.inverse_map(want):
                            acc.violation("reloaded-bijection-differs", "Bijection.from_dict", where, f"object {o}: {got} vs {want}", payload)
                            raise StopIteration
            except StopIteration:
                continue
            except NotImplementedError:
                continue
            except Exception as e:  # noqa: BLE001
                acc.violation("round-trip-raises", call_site(e), where, f"bijection: {type(e).__name__}: {str(e)[:200]}", payload)
                continue
            acc.nt((where,))
    return acc


def spec_configs(tier: str) -> List[Any]:
    cfgs = lattice(tier)
    for cl in dw.start_classes("quick"):
        # verified classes counted through the pack their strategy offers
        cfgs.append(Cfg.of(cl, "verp:a,b", "RuleDB"))
        cfgs.append(Cfg.of(cl, "verp:e", "Forest"))
        cfgs.append(Cfg.of(cl, "ver2:a>ab", "RuleDB"))
    if tier == "quick":
        cfgs = [c for c in cfgs if not getattr(c, "debug", False)]
    return cfgs


def run(ctx: Ctx) -> None:
    from mc.checks import c12

    cfgs = spec_configs(ctx.tier)
    ctx.rule = (
        "every specification returned for the search lattice under the two default slicings (plain, verification, lazily added "
        "empty rules, equivalence, equivalence path and reverse rules all occur), the pack of every configuration, groups of "
        "strategy instances created in 6-8 different ways, every rule form of the C09 enumeration, every bijection between corpus "
        "specifications; non-trivial = distinct serialised artefacts that were reloaded and compared"
    )
    ctx.assumptions = ["equality and behaviour (counts, objects, equations, maps) are both compared"]
    ctx.bounds = {"configurations": len(cfgs)}
    ctx.pmap(_worker_specs, [(c.to_json(), ctx.tier) for c in cfgs], chunksize=4)
    ctx.pmap(_worker_strategies, [0])
    classes = forms.w_classes(ctx.tier)
    step = 24
    ctx.pmap(_worker_forms_w, [(ctx.tier, lo, min(lo + step, len(classes))) for lo in range(0, len(classes), step)])
    fams = ["one"] if ctx.quick else ["one", "two"]
    shards = []
    for f in fams:
        total = len(dg.grammars(f))
        shards += [(ctx.tier, f, lo, min(lo + 40, total)) for lo in range(0, total, 40)]
    ctx.pmap(_worker_forms_g, shards)
    bj = [c.to_json() for c in c12.spec_cfgs(ctx.tier)]
    per = (len(bj) + 15) // 16
    ctx.pmap(_worker_bijections, [(ctx.tier, bj, k * per, (k + 1) * per) for k in range(16)])


def replay(acc: Acc, payload: dict) -> None:
    kind = payload.get("kind")
    if kind == "spec":
        cfg = Cfg.from_json(payload["cfg"])
        ex = execute(cfg, (), slice_default=payload["slice_default"], horizon=payload["horizon"])
        if ex.outcome == "spec":
            check_spec(acc, cfg, ex.spec, payload)
    elif kind == "strategies":
        acc.merge(_worker_strategies(0))
    elif kind == "pack":
        acc.merge(_worker_specs((payload["cfg"], "quick")))
    elif kind == "form":
        from comb_spec_searcher.strategies.strategy import AbstractStrategy

        s = AbstractStrategy.from_dict(dict(payload["strategy"]))
        if payload["domain"] == "G":
            c = dg.G.from_dict(payload["class"])
            check_rule_json(acc, s(c), dg.g_strategies(), dg.brute_terms, dg.brute_empty, payload)
        else:
            c = dw.W.from_dict(payload["class"])
            check_rule_json(acc, s(c), forms.w_strategies("quick"), dw.brute_terms, dw.brute_empty, payload)
    elif kind == "bijection":
        acc.merge(_worker_bijections(("quick", [payload["a"], payload["b"]], 0, 2)))
