"""C01 — a returned specification enumerates the root class correctly.

E2: every configuration of the lattice x every schedule of the real auto_search
within the deviation bound (time slicing, proof-tree randomness, minimiser
rounds), from both default slicings (never break / break after every packet);
E1: all slicings (explicit-state search over searcher states at the slice
decision points) on the base configurations.  Oracle: plain enumeration.
"""

from __future__ import annotations

from mc import domain_w as dw
from mc.core import Acc, Ctx
from mc.checks.common_search import (
    ConfigExplorer,
    lattice,
    replay_execution,
    undocumented_exception,
)
from mc.search import Cfg, Execution
from mc.specs import count_problems

LEVEL = "model_checking"
N_QUICK, N_THOROUGH = 6, 8


def make_checker(N: int):
    def checker(acc: Acc, cfg: Cfg, ex: Execution, payload: dict) -> None:
        undocumented_exception(acc, cfg, ex, payload)
        if ex.outcome == "notfound":
            # documented only when the queue is exhausted
            try:
                nxt = next(ex.searcher.classqueue)
            except StopIteration:
                nxt = None
            if nxt is not None:
                acc.violation(
                    "notfound-with-work-left",
                    "CombinatorialSpecificationSearcher.auto_search",
                    cfg.sid(),
                    f"SpecificationNotFound raised but the queue still hands out {nxt}",
                    dict(payload, kind="execution"),
                )
        if ex.outcome != "spec" or not getattr(ex, "spec_new", True):
            return
        try:
            probs = count_problems(ex.spec, cfg.start(), N)
        except Exception as e:  # noqa: BLE001
            from mc.search import call_site

            acc.violation(
                "exception-while-counting",
                call_site(e),
                cfg.sid(),
                f"{type(e).__name__}: {str(e)[:300]} (decisions {payload['prefix']})",
                dict(payload, kind="execution"),
            )
            return
        for p in probs[:1]:
            acc.violation(
                "wrong-count",
                "CombinatorialSpecification.get_terms",
                cfg.sid(),
                f"{p} (decisions {payload['prefix']}, slice_default {payload['slice_default']})",
                dict(payload, kind="execution"),
            )

    return checker


def _worker(arg) -> Acc:
    cfgj, tier, all_slicings = arg
    from mc import env

    cfg = Cfg.from_json(cfgj)
    acc = Acc()
    N = N_QUICK if tier == "quick" else N_THOROUGH
    ce = ConfigExplorer(acc, cfg, tier, [make_checker(N)])
    ce.explore_e2()
    if all_slicings:
        ce.explore_all_slicings()
    if hash(cfg.sid()) % 211 == 0:
        acc.sample({"configuration": cfg.sid(), "outcomes": ce.outcomes, "distinct_specifications": len(ce.seen_specs)})
    env.clear_library_caches()
    dw._BF_CACHE.clear()
    from mc import domain_g as dg

    dg._TREES.clear()
    return acc


def wants_all_slicings(cfg: Cfg, tier: str) -> bool:
    if getattr(cfg, "grammar", None) is not None:
        return tier != "quick" and not cfg.stats and cfg.pack == "g" and cfg.db in ("RuleDB", "Forest") and len(cfg.grammar) == 1
    if cfg.stats or cfg.smallest or cfg.debug or cfg.compressed:
        return False
    if tier == "quick":
        return cfg.pack in ("base", "ver:a,b", "inf2") and cfg.db in ("RuleDB", "Forest")
    return cfg.pack in ("base", "ver:a,b", "inf2", "sym", "rfac", "ver:e", "two") and not cfg.alphabet == "abc"


def run(ctx: Ctx) -> None:
    cfgs = lattice(ctx.tier)
    ctx.rule = (
        "configuration = start class x statistics x pack x rule database x options (full product of the stated axes); "
        "per configuration every schedule of auto_search within the deviation bound from both default slicings, plus all "
        "slicings by explicit-state search where stated; a case is one execution of the real auto_search; "
        "non-trivial = distinct (configuration, returned specification) pairs, each validated against plain enumeration"
    )
    ctx.assumptions = [
        "W-domain strategies honour the strategy contracts (checked by the domain gate in C09/C04 runs)",
        "virtual clock classification of time() call sites (validated by the reduction-conformance run of C17)",
        "sizes n <= %d" % (N_QUICK if ctx.quick else N_THOROUGH),
    ]
    ctx.bounds = {
        "configurations": len(cfgs),
        "deviations": {"quick": 1, "thorough": 2}[ctx.tier],
        "horizon_packets": 60 if ctx.quick else 150,
        "sizes": N_QUICK if ctx.quick else N_THOROUGH,
        "all_slicings_configs": sum(1 for c in cfgs if wants_all_slicings(c, ctx.tier)),
    }
    ctx.pmap(_worker, [(c.to_json(), ctx.tier, wants_all_slicings(c, ctx.tier)) for c in cfgs], chunksize=2)


def replay(acc: Acc, payload: dict) -> None:
    cfg, ex = replay_execution(payload)
    ex.spec_new = True
    make_checker(N_QUICK)(acc, cfg, ex, payload)
