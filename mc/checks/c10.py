"""C10 — declared shifts bound what a rule actually reads when counting.

Same enumeration as C09.  The sub-term providers are wrapped to log (level being
computed, child index, size asked); levels are computed one at a time so the
attribution is exact.  Oracle: size asked of child i <= level - shifts()[i];
requests for the rule's own terms < level; the forest key carries shifts().
"""

from __future__ import annotations

from typing import Any, List, Tuple

from mc import domain_w as dw
from mc import env
from mc import forms
from mc.core import Acc, Ctx, HarnessError, deadline
from mc.checks import c09
from mc.search import call_site

LEVEL = "exploration"
N_QUICK, N_THOROUGH = 6, 7


def explicit_zeros(terms_of):
    from collections import Counter

    def f(child, n):
        t = terms_of(child, n)
        if not t:
            return Counter({tuple(0 for _ in child.extra_parameters): 0})
        return t

    return f


def check_form(acc: Acc, base, desc: Tuple, form, N: int, terms_of, payload: dict) -> bool:
    fid = forms.form_id(desc)
    kind = "+".join(str(d) for d in desc if not isinstance(d, int))
    if isinstance(form, Exception):
        return False
    log: List[Tuple] = []
    level = [0]
    try:
        shifts = tuple(form.shifts())
        if len(shifts) != len(form.children):
            acc.violation("shifts-length", "AbstractRule.shifts", f"{type(base.strategy).__name__}:{kind}",
                          f"{c09.rule_desc(base)} form {fid}: shifts {shifts} for {len(form.children)} children", payload)
            return True
        labels = {}

        def get_label(c):
            return labels.setdefault(c, len(labels))

        fk = form.forest_key(get_label, dw.brute_empty if payload.get("domain") != "G" else (lambda c: c.is_empty()))
        if tuple(fk.shifts) != shifts or len(fk.children) != len(form.children):
            acc.violation("forest-key-shifts", "AbstractRule.forest_key", f"{type(base.strategy).__name__}:{kind}",
                          f"{c09.rule_desc(base)} form {fid}: forest key shifts {fk.shifts}, shifts() {shifts}", payload)
        c09.bind(form, terms_of, log, level)
        orig = form.get_terms
        depth = [0]

        def get_terms(n):
            if depth[0] > 0:
                log.append((level[0], "self", n))
            depth[0] += 1
            try:
                return orig(n)
            finally:
                depth[0] -= 1

        form.get_terms = get_terms
        for n in range(N + 1):
            level[0] = n
            del log[:]
            with deadline(30):
                form.get_terms(n)
            acc.count("evaluations")
            for lv, who, size in log:
                if who == "self":
                    if size >= lv:
                        acc.violation("reads-own-term-too-far", type(form.constructor).__name__, f"{type(base.strategy).__name__}:{kind}",
                                      f"{c09.rule_desc(base)} form {fid}: computing size {lv} asks for its own terms of size {size}", payload)
                        return True
                elif size > lv - shifts[who]:
                    acc.violation(
                        "reads-beyond-shift", type(form.constructor).__name__, f"{type(base.strategy).__name__}:{kind}",
                        f"{c09.rule_desc(base)} form {fid} (parent {form.comb_class.sid()}, children {[c.sid() for c in form.children]}): "
                        f"computing size {lv} asks child {who} for size {size}, declared shifts {shifts} allow at most {lv - shifts[who]}",
                        payload,
                    )
                    return True
            if log:
                acc.nt((c09.rule_desc(base), desc, n))
    except NotImplementedError:
        return False
    except Exception as e:  # noqa: BLE001
        acc.violation("exception-while-counting", call_site(e), f"{type(base.strategy).__name__}:{kind}",
                      f"{c09.rule_desc(base)} form {fid}: {type(e).__name__}: {str(e)[:200]}", payload)
    return True


def check_rule(acc: Acc, base, N: int, strategies, with_paths: bool, terms_of=dw.brute_terms, empty=dw.brute_empty, payload=None) -> None:
    from comb_spec_searcher.strategies.rule import EquivalencePathRule

    if payload is None:
        c = base.comb_class
        payload = {"domain": "W", "class": c.to_jsonable(), "strategy": base.strategy.to_jsonable()}
    acc.count("traces")
    for desc, form in forms.derived_forms(base, empty):
        if check_form(acc, base, desc, form, N, terms_of, payload):
            acc.outcome((type(base.strategy).__name__, tuple(d for d in desc if not isinstance(d, int)), tuple(form.shifts()) if not isinstance(form, Exception) else None))
    # the same forms (fresh objects: terms are cached) fed by providers that answer a size without
    # objects with an explicit zero coefficient, which the library treats as equal to an empty
    # counter (utils.equal_counters): what is read must not depend on the spelling of "nothing"
    try:
        fresh = base.strategy(base.comb_class)
    except Exception:  # noqa: BLE001
        fresh = None
    if fresh is not None:
        for desc, form in forms.derived_forms(fresh, empty):
            check_form(acc, base, desc + ("zeros",), form, N, explicit_zeros(terms_of), dict(payload, zeros=True))
    if not with_paths:
        return
    for d0, f0 in forms.one_child_equivalences(base, empty):
        for pdesc, chain in c09.paths_from(d0, f0, strategies, 2, empty):
            try:
                path = EquivalencePathRule(chain)
            except Exception:  # noqa: BLE001
                continue
            check_form(acc, base, ("path",) + pdesc, path, N, terms_of, dict(payload, path=[str(x) for x in pdesc]))


def _worker(arg) -> Acc:
    tier, lo, hi = arg
    acc = Acc()
    N = N_QUICK if tier == "quick" else N_THOROUGH
    classes = forms.w_classes(tier)[lo:hi]
    strategies = forms.w_strategies(tier)
    n = 0
    for base in forms.base_rules(classes, strategies):
        check_rule(acc, base, N, strategies, with_paths=True)
        n += 1
        if n == 2 and lo % 9 == 0:
            acc.sample({"class": base.comb_class.sid(), "strategy": repr(base.strategy),
                        "shifts_by_form": {forms.form_id(d): list(f.shifts()) for d, f in forms.derived_forms(base) if not isinstance(f, Exception)}})
    env.clear_library_caches()
    dw._BF_CACHE.clear()
    return acc


def run(ctx: Ctx) -> None:
    classes = forms.w_classes(ctx.tier)
    ctx.rule = (
        "same rule forms as C09 (W family and G family); every level 0..N computed one at a time with logging sub-term "
        "providers; an evaluation is one (form, level); non-trivial = distinct (rule, form, level) at which at least one "
        "request was made and compared with the declared shifts"
    )
    ctx.assumptions = ["children enumerated by plain enumeration; the first computation of each level is observed (terms are cached afterwards)"]
    ctx.bounds = {"classes": len(classes), "sizes": N_QUICK if ctx.quick else N_THOROUGH, "path_length": 2}
    from mc.checks import c09g

    step = 8
    tasks = c09g.g_tasks(ctx, "c10")
    tasks += [(_worker, (ctx.tier, lo, min(lo + step, len(classes)))) for lo in range(0, len(classes), step)]
    ctx.pmap_tasks(tasks)


def replay(acc: Acc, payload: dict) -> None:
    if payload.get("domain") == "G":
        from mc.checks import c09g

        c09g.replay_g(acc, payload, "c10")
        return
    from comb_spec_searcher.strategies.strategy import AbstractStrategy

    c = dw.W.from_dict(payload["class"])
    strat = AbstractStrategy.from_dict(dict(payload["strategy"]))
    check_rule(acc, strat(c), N_QUICK, forms.w_strategies("quick"), with_paths=True)
