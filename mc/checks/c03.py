"""C03 — forest productivity detection equals the least fixed point, in any insert order.

E1: explicit-state search over the real TableMethod.add_rule_key.  A state is an
insertion history (the table keeps the history itself, so two histories never
share an internal state); histories are rebuilt by replay on a fresh object.
Oracle: independent least-fixed-point iteration on the multiset inserted so far,
evaluated after every insertion.
"""

from __future__ import annotations

from itertools import permutations, product
from typing import Dict, List, Optional, Sequence, Tuple

from mc.core import Acc, Ctx, HarnessError, deadline
from mc.oracles import lfp_terms, lfp_terms_kleene

LEVEL = "model_checking"

Key = Tuple[int, Tuple[int, ...], Tuple[int, ...]]


# ---------------------------------------------------------------------------
# alphabets, ordered simplest first


def alphabet_A1() -> List[Key]:
    """2 labels, arity <= 2 (children sorted), shifts in {-1,0,1,2}: 114 keys."""
    S = (-1, 0, 1, 2)
    keys: List[Key] = []
    for p in (0, 1):
        keys.append((p, (), ()))
    for p in (0, 1):
        for c in (0, 1):
            for s in S:
                keys.append((p, (c,), (s,)))
    for p in (0, 1):
        for cs in ((0, 0), (0, 1), (1, 1)):
            for ss in product(S, repeat=2):
                keys.append((p, cs, ss))
    return keys


def alphabet_A2() -> List[Key]:
    """3 labels, arity <= 1, shifts in {-1,0,1}: 30 keys."""
    keys: List[Key] = [(p, (), ()) for p in range(3)]
    for p in range(3):
        for c in range(3):
            for s in (-1, 0, 1):
                keys.append((p, (c,), (s,)))
    return keys


def alphabet_A3() -> List[Key]:
    """3 labels, arity <= 2 incl. repeated children, shifts in {-2..2} (≈400 keys)."""
    S = (-2, -1, 0, 1, 2)
    keys: List[Key] = [(p, (), ()) for p in range(3)]
    for p in range(3):
        for c in range(3):
            for s in S:
                keys.append((p, (c,), (s,)))
    for p in range(3):
        for a in range(3):
            for b in range(a, 3):
                for ss in product(S, repeat=2):
                    if a == b and ss[0] > ss[1]:
                        continue
                    keys.append((p, (a, b), ss))
    return keys


def alphabet_A4() -> List[Key]:
    """4 labels, chains and a few binary rules with shift ±3: gap growth after
    classes are already frozen above the gap (25 keys)."""
    keys: List[Key] = [(p, (), ()) for p in range(4)]
    for p in range(4):
        q = (p + 1) % 4
        for s in (-3, 0, 3):
            keys.append((p, (q,), (s,)))
    for p in range(4):
        keys.append((p, (p,), (1,)))
    keys += [
        (0, (1, 2), (0, 0)),
        (0, (2, 3), (3, -3)),
        (1, (3, 3), (1, 2)),
        (2, (0, 3), (-1, 1)),
        (3, (0, 1), (2, -2)),
    ]
    return keys


def alphabet_A5() -> List[Key]:
    """3 labels, arity <= 1, shifts in {1,2,3,4}: a large shift arriving after the parent
    was already pumped by smaller ones (the gap size must follow the rule's own shifts): 39 keys."""
    keys: List[Key] = [(p, (), ()) for p in range(3)]
    for p in range(3):
        for c in range(3):
            for s in (1, 2, 3, 4):
                keys.append((p, (c,), (s,)))
    return keys


def alphabet_A1s() -> List[Key]:
    """40-key sub-alphabet of A1 for depth 4 (every other shift pair of the binary rules)."""
    a1 = alphabet_A1()
    small = [k for k in a1 if len(k[1]) <= 1]
    binary = [k for k in a1 if len(k[1]) == 2]
    keep = [k for k in binary if k[2] in ((0, 0), (1, 0), (0, 1), (-1, 1), (1, -1), (2, -1), (1, 1))]
    keep = [k for k in keep if k[1] != (1, 1) or k[2][0] <= k[2][1]]
    return small + keep[: 40 - len(small)]


ALPHABETS = {
    "A1": alphabet_A1,
    "A1s": alphabet_A1s,
    "A2": alphabet_A2,
    "A3": alphabet_A3,
    "A4": alphabet_A4,
    "A5": alphabet_A5,
}

# universes of tests/test_forest.py (data copied, not imported)
U132 = [
    (0, (1, 2), (0, 0)),
    (1, (), ()),
    (2, (3,), (0,)),
    (3, (4,), (0,)),
    (4, (5, 0, 0), (0, 1, 1)),
    (5, (), ()),
    (2, (6,), (2,)),
]
U132_PROGRESSIVE = [
    (0, (1, 2), (0, 0)),
    (1, (), ()),
    (2, (3,), (0,)),
    (3, (4,), (0,)),
    (5, (), ()),
    (2, (6,), (-2,)),
    (2, (7,), (2,)),
    (4, (5, 0, 0), (0, 1, 1)),
]
U_NOT_PUMPING = [
    (0, (1, 2), (0, 0)),
    (5, (), ()),
    (2, (3,), (0,)),
    (3, (4,), (0,)),
    (4, (5, 0, 0), (0, 1, 1)),
]
U_SEGMENTED = [
    (0, (1, 2), (0, 0)),
    (1, (4, 14), (0, 0)),
    (2, (), ()),
    (3, (16, 5), (1, 0)),
    (4, (), ()),
    (5, (), ()),
    (6, (7, 5, 17), (2, 1, 1)),
    (16, (6,), (0,)),
    (7, (), ()),
    (8, (9, 5), (1, 0)),
    (12, (20, 5), (-1, 0)),
    (20, (13,), (0,)),
    (13, (15, 2, 5), (-1, 1, 0)),
    (15, (1,), (0,)),
    (14, (3,), (0,)),
    (18, (8,), (0,)),
    (11, (12, 18), (0, 0)),
    (17, (8,), (0,)),
    (9, (0, 19), (0, 0)),
    (10, (5, 11), (0, 1)),
    (19, (10,), (0,)),
]
SEGMENTED_EXPECT_END = {i: None for i in range(21)}


# ---------------------------------------------------------------------------


def _fk(key: Key):
    from comb_spec_searcher.typing import ForestRuleKey, RuleBucket

    # the table method's function must not depend on the bucket of a key (buckets only order
    # the extractor's minimisation), so the bucket is varied with the key instead of being fixed
    buckets = (RuleBucket.NORMAL, RuleBucket.REVERSE, RuleBucket.EQUIV, RuleBucket.VERIFICATION)
    return ForestRuleKey(key[0], tuple(key[1]), tuple(key[2]), buckets[(key[0] + sum(key[1]) + sum(key[2]) + len(key[1])) % 4])


_ORACLE_MEMO: Dict[Tuple[Key, ...], Dict[int, Optional[int]]] = {}


def oracle(multiset: Tuple[Key, ...]) -> Dict[int, Optional[int]]:
    r = _ORACLE_MEMO.get(multiset)
    if r is None:
        r = lfp_terms(multiset)
        if len(_ORACLE_MEMO) > 600000:
            _ORACLE_MEMO.clear()
        _ORACLE_MEMO[multiset] = r
    return r


def _ser(hist):
    return [[k[0], list(k[1]), list(k[2])] for k in hist]


def _ge(new: Optional[int], old: Optional[int]) -> bool:
    if new is None:
        return True
    if old is None:
        return False
    return new >= old


def check_history(acc: Acc, hist: Sequence[Key], where: str, leaf_only_from: int = 0) -> bool:
    """Replay hist on a fresh TableMethod, evaluating the oracle after every
    insertion with index >= leaf_only_from.  Returns True if no violation."""
    from comb_spec_searcher.rule_db.forest import TableMethod

    tm = TableMethod()
    prev: Dict[int, Optional[int]] = {}
    ok = True
    for i, key in enumerate(hist):
        try:
            with deadline(10):
                tm.add_rule_key(_fk(key))
                got = tm.function
        except Exception as e:  # the table must accept any rule key
            acc.violation(
                "exception",
                "TableMethod.add_rule_key",
                where,
                f"{type(e).__name__}: {e} after {list(hist[: i + 1])}",
                {"history": _ser(hist[: i + 1])},
            )
            return False
        # only grows
        for l, v in prev.items():
            if not _ge(got.get(l, 0), v):
                acc.violation(
                    "not-monotone",
                    "TableMethod.function",
                    where,
                    f"value of {l} went from {v} to {got.get(l, 0)} after {list(hist[: i + 1])}",
                    {"history": _ser(hist[: i + 1])},
                )
                ok = False
        prev = got
        if i < leaf_only_from:
            continue
        acc.count("evaluations")
        ms = tuple(sorted(hist[: i + 1]))
        want = oracle(ms)
        if got != want:
            acc.violation(
                "function!=lfp",
                "TableMethod.function",
                where,
                f"history {list(hist[: i + 1])}: function {got} but least fixed point {want}",
                {"history": _ser(hist[: i + 1])},
            )
            ok = False
            continue
        labels = {key[0] for key in ms} | {c for key in ms for c in key[1]}
        for l in labels:
            if tm.is_pumping(l) != (l in want and want[l] is None):
                acc.violation(
                    "is_pumping!=lfp",
                    "TableMethod.is_pumping",
                    where,
                    f"history {list(hist[: i + 1])}: is_pumping({l})={tm.is_pumping(l)}, lfp {want.get(l, 0)}",
                    {"history": _ser(hist[: i + 1])},
                )
                ok = False
        inf = {l for l, v in want.items() if v is None}
        sub = sorted((fk.parent, fk.children, fk.shifts) for fk in tm.pumping_subuniverse())
        want_sub = sorted(k for k in hist[: i + 1] if k[0] in inf and all(c in inf for c in k[1]))
        if sub != want_sub:
            acc.violation(
                "pumping_subuniverse",
                "TableMethod.pumping_subuniverse",
                where,
                f"history {list(hist[: i + 1])}: {sub} != {want_sub}",
                {"history": _ser(hist[: i + 1])},
            )
            ok = False
    if hist:
        ms = tuple(sorted(hist))
        want = oracle(ms)
        acc.outcome((ms, tuple(sorted(want.items(), key=repr))))
        if want:
            acc.nt(ms)
    return ok


def _shard_sequences(arg) -> Acc:
    """All sequences of exactly `depth` keys (with repetition) starting with the
    given prefix; every prefix-tree node is evaluated once (at the leaf for the
    leaf, and at the first leaf below it for inner nodes)."""
    name, depth, prefix_idx = arg
    keys = ALPHABETS[name]()
    acc = Acc()
    prefix = [keys[i] for i in prefix_idx]
    rest = depth - len(prefix)
    first = True
    for tail in product(range(len(keys)), repeat=rest):
        hist = prefix + [keys[i] for i in tail]
        # every prefix-tree node is evaluated exactly once: by the leaf that
        # extends it with key number 0 only
        full = tuple(prefix_idx) + tail
        lo = depth - 1
        while lo > 0 and full[lo] == 0:
            lo -= 1
        check_history(acc, hist, f"{name}/depth{depth}", leaf_only_from=lo)
        acc.count("traces")
        acc.count("states", depth - lo)
        acc.count("transitions", depth - lo)
        if first and prefix_idx and prefix_idx[0] % 37 == 5:
            acc.sample({"alphabet": name, "history": hist})
            first = False
    return acc


def _shard_perms(arg) -> Acc:
    name, universe, first = arg
    acc = Acc()
    rest = [k for i, k in enumerate(universe) if i != first]
    for perm in permutations(rest):
        hist = [universe[first]] + list(perm)
        check_history(acc, hist, f"perm/{name}")
        acc.count("traces")
        acc.count("states", len(hist))
        acc.count("transitions", len(hist))
    acc.sample({"universe": name, "first": universe[first], "orders": "all"})
    return acc


def _near_orders(universe: List[Key]):
    """The order, its reverse, and everything within two adjacent transpositions
    or one block move of either."""
    n = len(universe)
    seen = set()

    def emit(order):
        t = tuple(order)
        if t not in seen:
            seen.add(t)
            return True
        return False

    for base in (list(range(n)), list(range(n - 1, -1, -1))):
        if emit(base):
            yield [universe[i] for i in base]
        for i in range(n - 1):
            o = base[:]
            o[i], o[i + 1] = o[i + 1], o[i]
            if emit(o):
                yield [universe[x] for x in o]
            for j in range(i, n - 1):
                o2 = o[:]
                o2[j], o2[j + 1] = o2[j + 1], o2[j]
                if emit(o2):
                    yield [universe[x] for x in o2]
        for i in range(n):
            for j in range(n):
                if i == j:
                    continue
                o = base[:]
                x = o.pop(i)
                o.insert(j, x)
                if emit(o):
                    yield [universe[x] for x in o]


def _shard_near(arg) -> Acc:
    k, m = arg
    acc = Acc()
    for idx, hist in enumerate(_near_orders(U_SEGMENTED)):
        if idx % m != k:
            continue
        check_history(acc, hist, "near/segmented")
        acc.count("traces")
        acc.count("states", len(hist))
        acc.count("transitions", len(hist))
    return acc


def self_test() -> None:
    """Oracle self test: hand-typed expectations of tests/test_forest.py and
    agreement with uncapped Kleene iteration."""
    exp = lfp_terms(U132)
    if exp != {i: None for i in range(6)}:
        raise HarnessError(f"lfp oracle self test (132 universe): {exp}")
    if lfp_terms(U_NOT_PUMPING) != {2: 1, 3: 1, 4: 1, 5: None}:
        raise HarnessError("lfp oracle self test (not pumping universe)")
    if lfp_terms(U132_PROGRESSIVE[:7]) != {0: 2, 1: None, 2: 2, 5: None}:
        raise HarnessError("lfp oracle self test (progressive universe)")
    seg = lfp_terms(U_SEGMENTED[:18])
    want = {0: 3, 1: 3, 2: None, 3: 3, 4: None, 5: None, 6: 2, 7: None, 8: 1, 11: 1,
            12: 1, 13: 2, 14: 3, 15: 3, 16: 2, 17: 1, 18: 1, 20: 2}
    if seg != want:
        raise HarnessError(f"lfp oracle self test (segmented universe): {seg}")
    if lfp_terms(U_SEGMENTED) != SEGMENTED_EXPECT_END:
        raise HarnessError("lfp oracle self test (segmented universe, end)")
    for u in (U132, U_NOT_PUMPING, U132_PROGRESSIVE, U_SEGMENTED[:18]):
        a = lfp_terms(u)
        b = lfp_terms(u, cap_factor=4)
        if a != b:
            raise HarnessError("lfp oracle: cap K and 4K disagree")
        labels = {k[0] for k in u} | {c for k in u for c in k[1]}
        S = max([1] + [abs(s) for k in u for s in k[2]])
        kl = lfp_terms_kleene(u, 4 * (len(labels) + 1) * S)
        for l in labels:
            v = a.get(l, 0)
            if v is not None and kl[l] != v:
                raise HarnessError(f"lfp oracle vs Kleene at {l}: {v} vs {kl[l]}")


def run(ctx: Ctx) -> None:
    self_test()
    ctx.rule = (
        "every sequence with repetition of rule keys from the stated alphabets up to the stated depth, "
        "every permutation of the test-suite universes; a case is one insertion history (oracle evaluated "
        "after every insertion); non-trivial = distinct rule multisets whose least fixed point gives some class a term"
    )
    ctx.assumptions = [
        "least-fixed-point oracle mc/oracles.py:lfp_terms (self-tested against tests/test_forest.py data and uncapped Kleene iteration)",
        "labels <= 3 (4 in A4), arity <= 2, |shift| <= 2 (3 in A4)",
    ]
    if ctx.quick:
        plans = [("A1", 3, 1), ("A2", 4, 2), ("A5", 4, 2)]
    else:
        plans = [("A1", 3, 1), ("A2", 4, 2), ("A5", 4, 2), ("A1s", 4, 2), ("A3", 3, 2), ("A4", 5, 2)]
    ctx.bounds = {"sequence_plans": [{"alphabet": a, "keys": len(ALPHABETS[a]()), "depth": d} for a, d, _ in plans]}
    shards = []
    for name, depth, plen in plans:
        n = len(ALPHABETS[name]())
        for pre in product(range(n), repeat=plen):
            shards.append((name, depth, pre))
    ctx.pmap(_shard_sequences, shards, chunksize=4)
    perm_sets = [("U132", U132), ("U_NOT_PUMPING", U_NOT_PUMPING)]
    if not ctx.quick:
        perm_sets.append(("U132_PROGRESSIVE", U132_PROGRESSIVE))
    ctx.bounds["permutation_sets"] = [n for n, _ in perm_sets]
    ctx.pmap(_shard_perms, [(n, u, i) for n, u in perm_sets for i in range(len(u))])
    m = 16
    ctx.pmap(_shard_near, [(k, m) for k in range(m)])
    ctx.bounds["near_orders_of_segmented_universe"] = "identity and reverse, all orders within 2 adjacent transpositions or one block move"


def replay(acc: Acc, payload: dict) -> None:
    hist = [(k[0], tuple(k[1]), tuple(k[2])) for k in payload["history"]]
    check_history(acc, hist, "replay")
