"""C17 — a search pickled or interrupted at any point resumes faithfully.

E4 crash-point enumeration: for every configuration and every packet count k the
real auto_search(max_expansion_time=...) is interrupted at k by the virtual clock
(it raises ExceededMaxtimeError or returns a specification), the searcher is
pickled and restored, and original and restored are continued under the same
remaining schedule: run to the end, and every single further interruption point.
Differential oracle: restored == original, equal canonical universes and work
packet streams after every continuation, interrupted-then-resumed equals the
uninterrupted run with the same check points, final specification passes C01/C02.
Also hosts the reduction-conformance run of the virtual clock (DESIGN 2.1).
"""

from __future__ import annotations

import pickle
from typing import Any, Dict, List, Optional, Tuple

from mc import domain_w as dw
from mc import env
from mc.core import Acc, Ctx, HarnessError, Timeout, deadline
from mc.search import Cfg, DBS, build_searcher, call_site, canon_searcher
from mc.specs import count_problems, spec_signature, structure_problems

LEVEL = "fault_enumeration"
N = 5


def drive(searcher, *, interrupt_at: Optional[int], horizon: int, slice_script=None, leap_at_call=None, leap_big=False):
    """One call of the real auto_search under a fresh virtual clock.
    Returns (outcome, spec, exception, clock)."""
    dec = env.Decisions()
    clock = env.VirtualClock(dec, slice_default=0, horizon=horizon, interrupt_at=interrupt_at,
                             slice_script=slice_script, leap_at_call=leap_at_call, leap_big=leap_big)
    clock.record_stream = True
    spec = None
    exc = None
    with env.seams(clock=clock, dec=dec):
        try:
            with deadline(120):
                spec = searcher.auto_search(max_expansion_time=1.0e6)
            outcome = "spec"
        except HarnessError:
            raise
        except Exception as e:  # noqa: BLE001
            exc = e
            name = type(e).__name__
            if name == "SpecificationNotFound":
                outcome = "notfound"
            elif name == "ExceededMaxtimeError":
                outcome = "horizon" if clock.horizon_hit else "interrupted"
            else:
                outcome = "exception:" + name + "@" + (call_site(e) if not isinstance(e, Timeout) else "timeout")
    return outcome, spec, exc, clock


def fresh(cfg: Cfg):
    dec = env.Decisions()
    clock = env.VirtualClock(dec)
    with env.seams(clock=clock, dec=dec):
        return build_searcher(cfg)


def sig(spec) -> Optional[str]:
    return None if spec is None else spec_signature(spec)


class Reporter:
    def __init__(self, acc: Acc, cfg: Cfg, payload_base: dict) -> None:
        self.acc = acc
        self.cfg = cfg
        self.base = payload_base

    def v(self, clause: str, site: str, detail: str, **extra) -> None:
        self.acc.violation(clause, site, self.cfg.sid(), detail, dict(self.base, **extra))


def validate_spec(rep: Reporter, cfg: Cfg, spec, seen: set, **extra) -> None:
    s = sig(spec)
    if s in seen:
        return
    seen.add(s)
    try:
        probs = count_problems(spec, cfg.start(), N) + structure_problems(spec, cfg.start(), cfg.make_pack())
    except Exception as e:  # noqa: BLE001
        rep.v("final-specification-invalid", call_site(e), f"{type(e).__name__}: {str(e)[:200]}", **extra)
        return
    for p in probs[:1]:
        rep.v("final-specification-invalid", "CombinatorialSpecificationSearcher.auto_search", p, **extra)


def continue_both(rep: Reporter, cfg: Cfg, a, b, k: int, k2: Optional[int], horizon: int, seen_specs: set) -> Tuple[Any, Any]:
    """Continue original a and restored b under the same schedule; compare.
    `horizon` is what is left of the global work-packet horizon."""
    extra = {"k": k, "k2": k2}
    if horizon <= 0:
        return "horizon", None
    oa, sa, ea, ca = drive(a, interrupt_at=k2, horizon=horizon)
    ob, sb, eb, cb = drive(b, interrupt_at=k2, horizon=horizon)
    rep.acc.count("traces", 2)
    rep.acc.count("transitions", ca.packets + cb.packets)
    if oa.startswith("exception"):
        rep.v("exception-after-resume", oa.split("@", 1)[1], f"continuing after interruption at packet {k} (next interruption {k2}): {oa}: {str(ea)[:200]}", **extra)
    if oa != ob:
        rep.v("restored-diverges", "CombinatorialSpecificationSearcher.__setstate__", f"after interruption at {k} (then {k2}): original {oa}, restored {ob}", **extra)
        return oa, sa
    if ca.stream != cb.stream:
        i = next((i for i, (x, y) in enumerate(zip(ca.stream, cb.stream)) if x != y), min(len(ca.stream), len(cb.stream)))
        rep.v("restored-diverges", "work-packet-stream", f"after interruption at {k}: packet {i} differs: {ca.stream[i:i+1]} vs {cb.stream[i:i+1]}", **extra)
    elif canon_searcher(a) != canon_searcher(b):
        rep.v("restored-diverges", "universe", f"after interruption at {k} (then {k2}) the universes differ", **extra)
    elif sig(sa) != sig(sb):
        # Same universe, same work, but another proof tree: which of several alternative rules
        # the tree search takes depends on the iteration order of sets, which pickling does not
        # preserve (and which the real search randomises anyway).  Both answers must then be
        # specifications of the common universe that pass C01/C02.
        rep.acc.count("restored_specification_is_another_tree_of_the_same_universe")
        validate_spec(rep, cfg, sb, seen_specs, **extra)
        for spec, other, who in ((sa, b, "original"), (sb, a, "restored")):
            foreign = rules_outside_universe(spec, other)
            if foreign:
                rep.v("restored-diverges", "specification",
                      f"after interruption at {k} (then {k2}) the {who} specification uses a rule the other searcher does not hold: {foreign[0]}", **extra)
                break
    if oa == "spec":
        validate_spec(rep, cfg, sa, seen_specs, **extra)
    return oa, sa


def rules_outside_universe(spec, searcher) -> List[str]:
    """Rules of the specification (equivalence paths link by link, reverse rules through the
    rule they reverse) whose key the searcher's rule database does not hold."""
    from comb_spec_searcher.strategies.rule import EquivalencePathRule, ReverseRule, VerificationRule

    out: List[str] = []
    classdb = searcher.classdb
    try:
        stored = set(iter(searcher.ruledb)) if hasattr(searcher.ruledb, "__iter__") else None
    except Exception:  # noqa: BLE001
        stored = None

    def visit(rule) -> None:
        if isinstance(rule, EquivalencePathRule):
            for x in rule.rules:
                visit(x)
            return
        while isinstance(rule, ReverseRule) or hasattr(rule, "original_rule"):
            rule = rule.original_rule
        try:
            start = classdb.get_label(rule.comb_class)
            ends = tuple(sorted(classdb.get_label(c) for c in rule.children if not (rule.possibly_empty and classdb.is_empty(c))))
        except Exception as e:  # noqa: BLE001
            out.append(f"{rule.comb_class!r}: {type(e).__name__}")
            return
        if stored is not None and not isinstance(rule, VerificationRule) and (start, ends) not in stored and ends != (start,):
            out.append(f"{start} -> {ends} ({rule.formal_step})")

    for r in spec.rules_dict.values():
        visit(r)
    return out


def explore_cfg(acc: Acc, cfg: Cfg, tier: str, only_k: Optional[int] = None, only_k2: Any = "all") -> None:
    horizon = 30 if tier == "quick" else 60
    base = {"cfg": cfg.to_json(), "tier": tier}
    rep = Reporter(acc, cfg, base)
    seen_specs: set = set()
    # uninterrupted reference run
    ref = fresh(cfg)
    o_ref, s_ref, e_ref, c_ref = drive(ref, interrupt_at=None, horizon=horizon)
    acc.count("traces")
    P = c_ref.packets
    if o_ref.startswith("exception"):
        rep.v("exception", o_ref.split("@", 1)[1], f"uninterrupted run: {o_ref}: {str(e_ref)[:200]}", k=None, k2=None)
        return
    acc.outcome((cfg.sid(), o_ref, P))
    ks = range(1, P + 1) if only_k is None else [only_k]
    for k in ks:
        acc.count("evaluations")
        acc.nt((cfg.sid(), k))
        s = fresh(cfg)
        o1, sp1, e1, c1 = drive(s, interrupt_at=k, horizon=horizon)
        acc.count("traces")
        acc.count("states")
        acc.count("transitions", c1.packets)
        working = list(getattr(s.classqueue, "working", ()))
        if len(working) != len(set(working)):
            acc.count("crash_points_with_a_repeated_label_in_the_working_deque")
        if o1.startswith("exception"):
            rep.v("exception", o1.split("@", 1)[1], f"interrupting at packet {k}: {o1}: {str(e1)[:200]}", k=k, k2=None)
            continue
        if o1 == "spec":
            validate_spec(rep, cfg, sp1, seen_specs, k=k, k2=None)
        # pickle round trip at this crash point
        try:
            blob = pickle.dumps(s)
            r = pickle.loads(blob)
        except Exception as e:  # noqa: BLE001
            rep.v("pickle-fails", "pickle", f"at packet {k}: {type(e).__name__}: {str(e)[:200]}", k=k, k2=None)
            continue
        try:
            same = (r == s) and (s == r)
        except Exception as e:  # noqa: BLE001
            rep.v("restored-equality-raises", call_site(e), f"at packet {k}: searcher == restored raised {type(e).__name__}: {str(e)[:160]}", k=k, k2=None)
            same = True
        if not same:
            parts = [key for key in vars(s) if vars(s)[key] != vars(r).get(key)]
            rep.v("restored!=original", "CombinatorialSpecificationSearcher.__eq__", f"at packet {k}: the restored searcher is not equal to the original (differs on {parts})", k=k, k2=None)
        if canon_searcher(s) != canon_searcher(r):
            rep.v("restored-universe-differs", "pickle", f"at packet {k}: canonical universes differ right after the round trip", k=k, k2=None)
        if o1 != "interrupted":
            continue
        # differential: uninterrupted run with a check point at k
        d = fresh(cfg)
        od, sd, ed, cd = drive(d, interrupt_at=None, horizon=horizon, slice_script=[0] * (k - 1) + [1])
        acc.count("traces")
        # continuation to the end, original and restored in lock step
        a, b = s, r
        o_end, s_end = continue_both(rep, cfg, a, b, k, None, horizon - k, seen_specs)
        if (o_end, sig(s_end)) != (od, sig(sd)) or canon_searcher(a) != canon_searcher(d):
            rep.v("resumed!=uninterrupted", "CombinatorialSpecificationSearcher.auto_search",
                  f"interrupted at {k} and resumed: {o_end}; uninterrupted with a check point at {k}: {od}; universes equal: {canon_searcher(a) == canon_searcher(d)}", k=k, k2=None)
        # every single further interruption point
        remaining = c_ref.packets - k
        k2s = range(1, max(remaining, 0) + 1)
        if only_k2 != "all":
            k2s = [only_k2] if only_k2 else []
        elif tier == "quick":
            k2s = [x for x in k2s if x <= 3 or x == remaining]
        for k2 in k2s:
            a = pickle.loads(blob)
            b = pickle.loads(blob)
            o2, s2 = continue_both(rep, cfg, a, b, k, k2, horizon - k, seen_specs)
            if o2 == "interrupted":
                o3, s3 = continue_both(rep, cfg, a, b, k, None, horizon - k - k2, seen_specs)
                if o3 != od and not o3.startswith("exception"):
                    # two extra check points may legitimately find a specification earlier/later only
                    # if the universe differs; compare outcome kinds only
                    if (o3 == "spec") != (od == "spec"):
                        rep.v("resumed!=uninterrupted", "CombinatorialSpecificationSearcher.auto_search",
                              f"interrupted at {k} and {k2} more, resumed: {o3}; uninterrupted: {od}", k=k, k2=k2)


def configs(tier: str) -> List[Cfg]:
    classes = dw.start_classes("quick")
    if tier == "quick":
        plans = [("base", ()), ("norm+sym", ("a", "ab")), ("ver:a,b", ()), ("inf2", ("a",)), ("oneway+inf1", ()),
                 # packs whose work packets produce the same unprocessed class twice: crash points at
                 # which the queue's working deque holds a label more than once
                 ("sfac", ()), ("rfac3", ())]
        dbs = DBS
    else:
        plans = [("base", ()), ("base", ("a", "ab")), ("norm+sym", ("a", "ab")), ("sym", ()), ("ver:a,b", ()), ("ver:e", ("a",)),
                 ("inf2", ("a",)), ("inf1", ()), ("rfac", ()), ("sfac", ()), ("two", ()), ("rfac3", ()), ("base+iter", ()), ("rfac+sym", ("a",)), ("oneway+inf1", ()), ("onewayexp+inf1+sym", ()), ("oneway+inf2", ("a",)), ("rfac2", ())]
        dbs = DBS
    res = []
    for c in classes:
        for pk, st in plans:
            for db in dbs:
                if "iter" in pk and db.startswith("Forest"):
                    continue
                if tier == "quick" and pk in ("sfac", "rfac3") and db not in ("RuleDB", "Forest"):
                    continue  # the queue is the same object under every rule database
                res.append(Cfg.of(c.with_(stats=st), pk, db))
    if tier != "quick":
        for c in classes:
            res.append(Cfg.of(c, "base", "RuleDB", expand_verified=True))
            res.append(Cfg.of(c, "ver:a,b", "Forest", expand_verified=True))
            res.append(Cfg.of(c, "base", "Forget", compressed=True))
    return res


# ---------------------------------------------------------------------------
# reduction conformance of the clock-site classification


def conformance(acc: Acc, cfg: Cfg, horizon: int) -> None:
    """One leap at every single time() call index must give the same observable
    outcome as the classified schedule with the leap moved to the next slice
    decision point (or no leap, when no decision point follows)."""
    base = fresh(cfg)
    o0, s0, e0, c0 = drive(base, interrupt_at=None, horizon=horizon)
    total_calls = c0.calls
    # outcomes of the classified schedules: break after packet j (j = 1..P), and no break
    classified: Dict[Optional[int], Tuple] = {None: (o0, sig(s0), canon_searcher(base))}
    for j in range(1, c0.packets + 1):
        x = fresh(cfg)
        oj, sj, ej, cj = drive(x, interrupt_at=None, horizon=horizon, slice_script=[0] * (j - 1) + [1])
        classified[j] = (oj, sig(sj), canon_searcher(x))
    for i in range(1, total_calls + 1):
        x = fresh(cfg)
        oi, si, ei, ci = drive(x, interrupt_at=None, horizon=horizon, leap_at_call=i)
        acc.count("conformance_runs")
        got = (oi, sig(si), canon_searcher(x))
        if got not in classified.values():
            raise HarnessError(
                f"clock reduction not conformant: a leap at time() call {i} of {cfg.sid()} gives an outcome that no classified schedule gives ({oi})"
            )


def time_limit_anywhere(acc: Acc, cfg: Cfg, horizon: int) -> None:
    """The time limit expires at an arbitrary instant: for every index i of a time() call of the
    run (whatever the call site), time leaps beyond max_expansion_time just before that call.
    The search stops (or finishes); calling it again must lead to a final result and universe
    that an interruption at a packet boundary followed by the same further call also gives
    (or the uninterrupted run).  In the unchanged library the clock is only consulted at the
    classified sites, so this adds nothing there; it finds code that starts looking at the
    clock in the middle of a work packet."""
    base = fresh(cfg)
    o0, s0, e0, c0 = drive(base, interrupt_at=None, horizon=horizon)
    if o0 not in ("spec", "notfound"):
        return

    def finish(x, o, s):
        if o == "interrupted":
            o, s, _e, _c = drive(x, interrupt_at=None, horizon=horizon)
        return (o, sig(s), canon_searcher(x))

    finals = {(o0, sig(s0), canon_searcher(base))}
    for k in range(1, c0.packets + 1):
        x = fresh(cfg)
        o, s, _e, _c = drive(x, interrupt_at=k, horizon=horizon)
        finals.add(finish(x, o, s))
    for i in range(1, c0.calls + 1):
        x = fresh(cfg)
        o, s, e, _c = drive(x, interrupt_at=None, horizon=horizon, leap_at_call=i, leap_big=True)
        acc.count("traces")
        acc.count("evaluations")
        payload = {"cfg": cfg.to_json(), "tier": "quick", "time_limit_at_call": i, "horizon": horizon}
        if o.startswith("exception"):
            acc.violation("exception", o.split("@", 1)[1], cfg.sid(), f"time limit expiring at time() call {i}: {o}: {str(e)[:200]}", payload)
            return
        got = finish(x, o, s)
        if got[0].startswith("exception"):
            acc.violation("exception", got[0].split("@", 1)[1], cfg.sid(), f"resuming after the time limit expired at time() call {i}: {got[0]}", payload)
            return
        if got not in finals:
            acc.violation("resumed!=uninterrupted", "CombinatorialSpecificationSearcher.auto_search", cfg.sid(),
                          f"the time limit expires at time() call {i} of {c0.calls} (first call: {o}); calling auto_search again ends with {got[0]}"
                          f"{'' if got[1] is None else ' (a specification)'}, which no interruption at a packet boundary (1..{c0.packets}) followed by the same call gives "
                          f"(uninterrupted: {o0})", payload)
            return
        acc.nt((cfg.sid(), "limit-at-call", i))


def expansion_searchers(acc: Acc, cfg: Cfg, horizon: int) -> None:
    """The searchers that CombinatorialSpecification.expand_comb_class builds while verified
    classes are expanded: a forest database seeded with the rules of the old specification
    (held in its rule cache, not derivable from the pack) and the pack offered by the
    verification strategy.  Crash point: right before such a searcher starts.  The restored
    searcher must equal the original, and the expansion is *continued with the restored one*:
    it must end like the original (result / same exception), and the expanded specification
    must enumerate the start class (C01 oracle)."""
    from comb_spec_searcher.comb_spec_searcher import CombinatorialSpecificationSearcher as CSS
    from mc.search import execute

    ex = execute(cfg, (), slice_default=0, horizon=horizon)
    acc.count("traces")
    if ex.outcome != "spec":
        return
    spec = ex.spec
    if not list(spec.unexpanded_verified_classes()):
        return
    rep = Reporter(acc, cfg, {"cfg": cfg.to_json(), "tier": "quick", "expansion": True, "horizon": horizon})
    orig = CSS._auto_search_rules
    state = {"n": 0}

    def wrapped(self, *a, **kw):
        state["n"] += 1
        n = state["n"]
        acc.count("states")
        acc.count("evaluations")
        acc.nt((cfg.sid(), "expansion-searcher", n))
        try:
            r = pickle.loads(pickle.dumps(self))
        except Exception as e:  # noqa: BLE001
            rep.v("pickle-fails", "pickle", f"expansion searcher {n}: {type(e).__name__}: {str(e)[:200]}")
            return orig(self, *a, **kw)
        try:
            same = (r == self) and (self == r)
        except Exception as e:  # noqa: BLE001
            rep.v("restored-equality-raises", call_site(e), f"expansion searcher {n}: {type(e).__name__}: {str(e)[:160]}")
            same = True
        if not same:
            parts = [key for key in vars(self) if vars(self)[key] != vars(r).get(key)]
            rep.v("restored!=original", "CombinatorialSpecificationSearcher.__eq__", f"expansion searcher {n} (forest database seeded through its rule cache): the restored searcher is not equal to the original (differs on {parts})")
        res = {}
        for who, x in (("original", self), ("restored", r)):
            try:
                res[who] = ("rules", orig(x, *a, **kw))
            except HarnessError:
                raise
            except Exception as e:  # noqa: BLE001
                res[who] = ("exception:" + type(e).__name__, e)
            acc.count("traces")
        if res["original"][0] != res["restored"][0]:
            rep.v("restored-diverges", call_site(res["restored"][1]) if res["restored"][0] != "rules" else "CombinatorialSpecificationSearcher.__setstate__",
                  f"expansion searcher {n}: original ends with {res['original'][0]}, restored with {res['restored'][0]}: {str(res['restored'][1])[:160]}")
        kind, val = res["restored"] if res["restored"][0] == "rules" else res["original"]
        if kind != "rules":
            raise val
        return val

    dec = env.Decisions()
    clock = env.VirtualClock(dec, slice_default=0, horizon=200)
    CSS._auto_search_rules = wrapped
    try:
        with env.seams(clock=clock, dec=dec):
            try:
                with deadline(120):
                    new = spec.expand_verified()
            except HarnessError:
                raise
            except Exception as e:  # noqa: BLE001
                # C19 reports failures of the expansion itself; here only differences matter
                acc.count("expansions_that_raise")
                return
    finally:
        CSS._auto_search_rules = orig
    try:
        probs = count_problems(new, cfg.start(), N)
    except Exception as e:  # noqa: BLE001
        probs = [f"{type(e).__name__}: {str(e)[:160]}"]
    for p in probs[:1]:
        rep.v("final-specification-invalid", "CombinatorialSpecification.expand_comb_class", "expansion continued with restored searchers: " + p)


def expansion_configs(tier: str) -> List[Cfg]:
    classes = dw.start_classes("quick")
    packs = ["ver:a,b", "ver:e,a", "ver2:a>ab"] if tier == "quick" else ["ver:a,b", "ver:e,a", "ver:e", "ver:b,ab", "ver:a,b+inf1", "ver:a,b+sym", "ver2:a>ab", "ver2:e>a", "ver2:e,b>a,ba"]
    stats = [()] if tier == "quick" else [(), ("a", "ab")]
    dbs = ("RuleDB", "Forest") if tier == "quick" else DBS  # the database of the *original* search
    return [Cfg.of(c.with_(stats=st), pk, db) for c in classes for st in stats for pk in packs for db in dbs]


def _worker_expansion(arg) -> Acc:
    items, tier = arg
    acc = Acc()
    for cfgj in items:
        expansion_searchers(acc, Cfg.from_json(cfgj), 60 if tier == "quick" else 120)
        env.clear_library_caches()
    dw._BF_CACHE.clear()
    return acc


def _worker(arg) -> Acc:
    cfgj, tier, conf = arg
    cfg = Cfg.from_json(cfgj)
    acc = Acc()
    explore_cfg(acc, cfg, tier)
    if conf and not acc.violations:
        # (the conformance run presupposes a deterministic library; when this configuration
        # already shows violations they are reported instead of a harness error)
        conformance(acc, cfg, 30)
    if conf or hash(cfg.sid()) % (7 if tier == "quick" else 3) == 0:
        time_limit_anywhere(acc, cfg, 30 if tier == "quick" else 60)
    if hash(cfg.sid()) % 53 == 0:
        acc.sample({"configuration": cfg.sid(), "crash_points": "every packet count k; pickle round trip; continuation to the end; further interruption points"})
    env.clear_library_caches()
    dw._BF_CACHE.clear()
    return acc


def run(ctx: Ctx) -> None:
    cfgs = configs(ctx.tier)
    ctx.rule = (
        "for every configuration and every work-packet count k (crash point): interrupt the real auto_search at k by the virtual "
        "clock, pickle round trip, continue original and restored to the end and through further interruption points (quick: "
        "the next 3 and the last; thorough: every one), compare with the uninterrupted run having a check point at k; "
        "for a sub-family, the time limit expiring just before every single time() call of the run (any call site), then the same further call; "
        "for every specification with expandable verified classes, every searcher built by expand_comb_class (forest database seeded through its rule cache) "
        "pickled right before it starts and the expansion continued with the restored searcher; "
        "non-trivial = distinct (configuration, crash point) pairs"
    )
    ctx.assumptions = ["virtual clock site classification, validated here by the reduction-conformance run (one leap at every time() call index)"]
    ctx.bounds = {"configurations": len(cfgs), "horizon_packets": 30 if ctx.quick else 60}
    conf_every = 29 if ctx.quick else 7
    ctx.pmap(_worker, [(c.to_json(), ctx.tier, i % conf_every == 0) for i, c in enumerate(cfgs)], chunksize=1)
    items = [c.to_json() for c in expansion_configs(ctx.tier)]
    ctx.bounds["expansion_configurations"] = len(items)
    chunk = 8
    ctx.pmap(_worker_expansion, [(items[i : i + chunk], ctx.tier) for i in range(0, len(items), chunk)])


def replay(acc: Acc, payload: dict) -> None:
    cfg = Cfg.from_json(payload["cfg"])
    if payload.get("expansion"):
        expansion_searchers(acc, cfg, payload["horizon"])
        return
    if payload.get("time_limit_at_call") is not None:
        time_limit_anywhere(acc, cfg, payload["horizon"])
        return
    if payload.get("k") is None:
        explore_cfg(acc, cfg, payload.get("tier", "quick"), only_k=10**9)
    else:
        explore_cfg(acc, cfg, payload.get("tier", "quick"), only_k=payload["k"], only_k2=payload.get("k2"))
