"""C11 — forest extraction returns a minimal, closed, productive rule set.

(i)  E1: every sequence of <= L rule keys from an alphabet of 3-label keys in all
     bucket assignments (so every insertion order of every small universe) through
     the real TableMethod + ForestRuleExtractor, whenever the root pumps.
(ii) every forest run of the search lattice (reverse rules on and off, W and G
     universes, rule factories), the extractor observed inside
     RuleDBForest.get_specification_rules.
Oracle: subset of the inserted keys, one rule per parent, every mentioned class has
a rule, productive for the root by the independent least fixed point, removing any
single rule breaks productivity, no REVERSE key if the universe is productive
without them; (ii) every extracted key can be turned back into a rule with that key.
"""

from __future__ import annotations

from itertools import product
from typing import Any, Dict, List, Optional, Sequence, Set, Tuple

from mc import domain_g as dg
from mc import domain_w as dw
from mc import env
from mc.core import Acc, Ctx, HarnessError, deadline
from mc.oracles import lfp_terms
from mc.checks.common_search import ConfigExplorer, g_lattice, replay_execution, undocumented_exception
from mc.search import Cfg, Execution, call_site

LEVEL = "model_checking"

Key = Tuple[int, Tuple[int, ...], Tuple[int, ...], str]


def alphabet(nlabels: int = 3) -> List[Key]:
    keys: List[Key] = []
    for p in range(nlabels):
        keys.append((p, (), (), "VERIFICATION"))
    for p in range(nlabels):
        for c in range(nlabels):
            if c == p:
                keys.append((p, (c,), (1,), "NORMAL"))
                continue
            keys.append((p, (c,), (0,), "EQUIV"))
            keys.append((p, (c,), (0,), "NORMAL"))
            keys.append((p, (c,), (1,), "NORMAL"))
            keys.append((p, (c,), (0,), "REVERSE"))
            keys.append((p, (c,), (-1,), "REVERSE"))
    for p in range(nlabels):
        for a in range(nlabels):
            for b in range(a, nlabels):
                keys.append((p, (a, b), (0, 0), "NORMAL"))
                if p in (a, b):
                    keys.append((p, (a, b), (1, 1), "NORMAL"))
                else:
                    keys.append((p, (a, b), (0, 0), "REVERSE"))
    return keys


def fk(k: Key):
    from comb_spec_searcher.typing import ForestRuleKey, RuleBucket

    return ForestRuleKey(k[0], tuple(k[1]), tuple(k[2]), RuleBucket[k[3]])


def unfk(f) -> Key:
    return (f.parent, tuple(f.children), tuple(f.shifts), f.bucket.name)


def pumps(keys: Sequence[Key], root: int) -> bool:
    f = lfp_terms([(k[0], k[1], k[2]) for k in keys])
    return root in f and f[root] is None


def extraction_problems(inserted: Sequence[Key], needed: Sequence[Key], root: int) -> List[str]:
    probs: List[str] = []
    ins = list(inserted)
    pool = list(ins)
    for k in needed:
        if k in pool:
            pool.remove(k)
        else:
            probs.append(f"extracted key {k} was not inserted (or is used more often than inserted)")
    parents = [k[0] for k in needed]
    if len(set(parents)) != len(parents):
        probs.append(f"two rules for one class: parents {sorted(parents)}")
    mentioned = set(parents) | {c for k in needed for c in k[1]}
    for c in sorted(mentioned - set(parents)):
        probs.append(f"class {c} is mentioned but has no rule")
    if not pumps(needed, root):
        probs.append("the extracted rules are not productive for the root (independent least fixed point)")
    else:
        for i in range(len(needed)):
            if pumps(list(needed[:i]) + list(needed[i + 1 :]), root):
                probs.append(f"not minimal: still productive without {needed[i]}")
                break
    if any(k[3] == "REVERSE" for k in needed) and pumps([k for k in ins if k[3] != "REVERSE"], root):
        probs.append(f"uses reverse rule(s) {[k for k in needed if k[3] == 'REVERSE']} although the universe is productive without reverse rules")
    return probs


class _StubDB:
    def __init__(self, tm):
        self.table_method = tm


def check_universe(acc: Acc, hist: Sequence[Key], root: int, where: str) -> None:
    """One table fed the history key by key; as soon as the root pumps, the rule set is
    extracted after *every* further insertion from the same table (extract, insert, extract
    again -- what a search does), each time against the universe inserted so far."""
    from comb_spec_searcher.rule_db.forest import ForestRuleExtractor, TableMethod

    if not pumps(hist, root):
        return
    tm = TableMethod()
    payload = {"kind": "universe", "root": root, "history": [[k[0], list(k[1]), list(k[2]), k[3]] for k in hist]}
    for i, k in enumerate(hist):
        tm.add_rule_key(fk(k))
        sofar = list(hist[: i + 1])
        if not pumps(sofar, root):
            continue
        acc.count("evaluations")
        if not tm.is_pumping(root):
            acc.violation("table-not-pumping", "TableMethod.is_pumping", where, f"universe {sofar}: root {root} pumps by the oracle but not in the table", payload)
            return
        try:
            with deadline(20):
                ex = ForestRuleExtractor(root, _StubDB(tm), None, None)
                ex.check()
        except Exception as e:  # noqa: BLE001
            acc.violation("exception", call_site(e), where, f"universe {sofar}: {type(e).__name__}: {str(e)[:200]}", payload)
            return
        needed = [unfk(f) for f in ex.needed_rules]
        for p in extraction_problems(sofar, needed, root)[:2]:
            clause = ("not-minimal" if p.startswith("not minimal") else "needless-reverse" if "reverse" in p else
                      "not-productive" if "not productive" in p else "not-closed")
            acc.violation(clause, "ForestRuleExtractor._minimize", where,
                          f"universe {sofar} root {root} (extraction after insertion {i + 1} of {len(hist)} on one table): extracted {needed}: {p}", payload)
            return
        acc.outcome(tuple(sorted(needed)))
    acc.nt(tuple(sorted(hist)))


def _worker_universes(arg) -> Acc:
    depth, first, idxs = arg
    acc = Acc()
    keys = alphabet(3)
    idxs = list(range(len(keys))) if idxs is None else idxs
    n = 0
    hist = [keys[first]]
    for tail in product(idxs, repeat=depth - 1):
        hist = [keys[first]] + [keys[i] for i in tail]
        if len(set(hist)) != len(hist):
            continue
        check_universe(acc, hist, 0, f"universes/depth{depth}")
        n += 1
    acc.count("states", n)
    acc.count("transitions", n * depth)
    acc.count("traces", n)
    if first % 13 == 2:
        acc.sample({"universe": [[k[0], list(k[1]), list(k[2]), k[3]] for k in hist], "root": 0})
    return acc


# ---------------------------------------------------------------------------
# (ii) forest runs of real searches


def on_searcher(searcher) -> None:
    import comb_spec_searcher.rule_db.forest as fm

    db = searcher.ruledb
    db._verif_extractors = []
    if not isinstance(db, fm.RuleDBForest):
        return
    orig = db.get_specification_rules

    def wrapped(**kw):
        base_cls = fm.ForestRuleExtractor

        class Recording(base_cls):  # type: ignore[misc,valid-type]
            def __init__(self, *a, **k):
                super().__init__(*a, **k)
                db._verif_extractors.append((self, [unfk(f) for f in db.table_method._rules]))

        fm.ForestRuleExtractor = Recording
        try:
            return orig(**kw)
        finally:
            fm.ForestRuleExtractor = base_cls

    db.get_specification_rules = wrapped


def search_checker(acc: Acc, cfg, ex: Execution, payload: dict) -> None:
    undocumented_exception(acc, cfg, ex, payload)
    if ex.searcher is None:
        return
    db = ex.searcher.ruledb
    for extractor, inserted in getattr(db, "_verif_extractors", []):
        acc.count("evaluations")
        root = extractor.root_label
        needed = [unfk(f) for f in extractor.needed_rules]
        for p in extraction_problems(inserted, needed, root)[:2]:
            clause = ("not-minimal" if p.startswith("not minimal") else "needless-reverse" if "reverse" in p else
                      "not-productive" if "not productive" in p else "not-closed")
            acc.violation(clause, "ForestRuleExtractor._minimize", cfg.sid(), f"extracted {needed}: {p} (decisions {payload['prefix']})", dict(payload, kind="execution"))
        classdb = ex.searcher.classdb
        for rk in extractor.needed_rules:
            try:
                rule = extractor._find_rule(rk)
                back = rule.forest_key(classdb.get_label, classdb.is_empty)
            except Exception as e:  # noqa: BLE001
                acc.violation("key-not-recoverable", call_site(e), cfg.sid(), f"extracted key {unfk(rk)}: {type(e).__name__}: {str(e)[:200]}", dict(payload, kind="execution"))
                continue
            if back != rk:
                acc.violation("key-not-recoverable", "ForestRuleExtractor._find_rule", cfg.sid(), f"extracted key {unfk(rk)} is turned back into a rule with key {unfk(back)}", dict(payload, kind="execution"))
        acc.nt((cfg.sid(), tuple(sorted(needed))))
        acc.outcome((any(k[3] == "REVERSE" for k in needed), len(needed)))


def search_configs(tier: str) -> List[Any]:
    classes = dw.start_classes("quick")
    res: List[Any] = []
    if tier == "quick":
        packs = ["base", "norm+sym", "inf2", "rfac", "rfaconly", "ver:a,b", "sfac"]
        stats_list = [(), ("a", "ab")]
    else:
        packs = ["base", "sym", "norm+sym", "inf1", "inf2", "rfac", "rfaconly", "rfac+sym", "ver:a,b", "sfac", "two", "noinit"]
        stats_list = [(), ("a", "ab")]
    for c in classes:
        for st in stats_list:
            for pk in packs:
                for db in ("Forest", "ForestNR"):
                    res.append(Cfg.of(c.with_(stats=st), pk, db))
    if tier != "quick":
        for c in [c for c in dw.start_classes("thorough") if c not in classes]:
            for pk in ("base", "rfac", "inf2"):
                for db in ("Forest", "ForestNR"):
                    res.append(Cfg.of(c, pk, db))
    two = 0
    for c in g_lattice(tier):
        if not c.db.startswith("Forest"):
            continue
        if len(c.grammar) == 2:  # two-nonterminal grammars: every third one
            two += 1
            if two % 3:
                continue
        res.append(c)
    return res


def _worker_search(arg) -> Acc:
    cfgj, tier = arg
    cfg = Cfg.from_json(cfgj)
    acc = Acc()
    ce = ConfigExplorer(acc, cfg, tier, [search_checker], on_searcher=on_searcher)
    ce.explore_e2()
    if hash(cfg.sid()) % 173 == 0:
        acc.sample({"forest_run": cfg.sid(), "outcomes": ce.outcomes})
    env.clear_library_caches()
    dw._BF_CACHE.clear()
    dg._TREES.clear()
    return acc


def self_test() -> None:
    u = [(0, (1, 2), (0, 0), "NORMAL"), (1, (), (), "VERIFICATION"), (2, (0,), (1,), "NORMAL"), (2, (1,), (0,), "EQUIV")]
    if not pumps(u, 0):
        raise HarnessError("forest oracle self test: universe should pump")
    if extraction_problems(u, u[:3], 0):
        raise HarnessError(f"forest oracle self test: {extraction_problems(u, u[:3], 0)}")
    if not any("not minimal" in p for p in extraction_problems(u, u, 0)):
        raise HarnessError("forest oracle self test: redundancy not noticed")


def run(ctx: Ctx) -> None:
    self_test()
    keys = alphabet(3)
    depths = [2, 3] if ctx.quick else [2, 3, 4]
    ctx.rule = (
        "(i) every duplicate-free sequence of <= L keys from an alphabet of 3-label rule keys (arity <= 2, shifts in {-1,0,1}, "
        "buckets NORMAL/REVERSE/EQUIV/VERIFICATION) for which the root pumps, i.e. every insertion order of every such universe; "
        "(ii) every forest run of the search lattice under all schedules within the deviation bound; "
        "non-trivial = distinct pumping universes (as key sets) / distinct (configuration, extracted key set)"
    )
    ctx.assumptions = ["least-fixed-point oracle (mc/oracles.py, self-tested in C03)"]
    ctx.bounds = {"alphabet_keys": len(keys), "depths": depths}
    shards = []
    for d in depths:
        if d == 4:
            small = [i for i, k in enumerate(keys) if k[2] in ((), (0,), (1,), (0, 0)) and not (len(k[1]) == 2 and k[1][0] == k[1][1])]
            ctx.bounds["depth4_alphabet_keys"] = len(small)
            shards += [(d, i, small) for i in small]
        else:
            shards += [(d, i, None) for i in range(len(keys))]
    ctx.pmap(_worker_universes, shards)
    cfgs = search_configs(ctx.tier)
    ctx.bounds["forest_configurations"] = len(cfgs)
    ctx.pmap(_worker_search, [(c.to_json(), ctx.tier) for c in cfgs], chunksize=2)


def replay(acc: Acc, payload: dict) -> None:
    if payload.get("kind") == "universe":
        hist = [(k[0], tuple(k[1]), tuple(k[2]), k[3]) for k in payload["history"]]
        check_universe(acc, hist, payload["root"], "replay")
        return
    cfg, ex = replay_execution(payload, on_searcher=on_searcher)
    search_checker(acc, cfg, ex, payload)
