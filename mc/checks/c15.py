"""C15 — the class database is a stable bijection between classes and dense labels.

E1: explicit-state search over operation histories of the real ClassDB (plain
and byte-compressed class type), deduplicated on the three backing lists; the
space is closed (search ends when no new state appears).  Oracle: list-backed
reference model, compared on every transition, plus invariants in every state.
"""

from __future__ import annotations

from typing import Any, Dict, List, Optional, Tuple

from mc import domain_w as dw
from mc.core import Acc, Ctx, HarnessError

LEVEL = "model_checking"

LABELS = list(range(-2, 7))


def pool(cls) -> List[dw.W]:
    """4 distinct classes (one of them empty, one with a statistic) and a second object equal to the first."""
    return [
        cls("", ("aa",), "ab"),
        cls("", ("aa",), "ab"),  # equal to the first, distinct object
        cls("a", ("aa",), "ab"),
        cls("aa", ("aa",), "ab"),  # empty
        cls("", ("aa",), "ab", False, ("a",)),
    ]


def ops(npool: int) -> List[Tuple]:
    res: List[Tuple] = []
    for i in range(npool):
        res += [("get_label", i), ("get_class_c", i), ("contains_c", i), ("is_empty", i), ("is_empty_l", i), ("set_empty", i), ("is_empty_x", i)]
    for l in LABELS:
        res += [("get_class_l", l), ("contains_l", l), ("get_label_l", l)]
    return res


class Ref:
    """List-backed reference."""

    def __init__(self) -> None:
        self.classes: List[dw.W] = []
        self.empty: List[Optional[bool]] = []

    def index(self, c) -> Optional[int]:
        for i, x in enumerate(self.classes):
            if x == c:
                return i
        return None

    def add(self, c) -> int:
        i = self.index(c)
        if i is None:
            self.classes.append(c)
            self.empty.append(None)
            i = len(self.classes) - 1
        return i


def canon(db) -> Tuple:
    def cid(k):
        c = db._decompress(k) if isinstance(k, bytes) else k
        return c.sid()

    return (
        tuple(cid(k) for k in db.comb_class_list),
        tuple(db.empty_list),
        tuple(sorted((cid(k), v) for k, v in db.label_dict.items())),
    )


def step(db, ref: Ref, P: List[dw.W], op: Tuple) -> Optional[str]:
    """Apply op to both; return a description of the disagreement, if any."""
    kind, x = op

    def call(f, *a):
        try:
            return ("ok", f(*a))
        except Exception as e:  # noqa: BLE001
            return ("exc", type(e).__name__)

    if kind == "get_label":
        want = ref.add(P[x])
        got = call(db.get_label, P[x])
        if got != ("ok", want):
            return f"get_label(class {x}) = {got}, expected label {want}"
    elif kind == "get_class_c":
        want = ref.add(P[x])
        got = call(db.get_class, P[x])
        if got[0] != "ok" or got[1] != P[x]:
            return f"get_class(class {x}) = {got}, expected an equal class"
    elif kind == "contains_c":
        want = ref.index(P[x]) is not None
        got = call(db.__contains__, P[x])
        if got != ("ok", want):
            return f"(class {x} in db) = {got}, expected {want}"
    elif kind in ("is_empty", "is_empty_l"):
        i = ref.index(P[x])
        if i is None:
            return None  # not enabled: emptiness is only asked of known classes
        want = P[x].is_empty()
        got = call(db.is_empty, P[x]) if kind == "is_empty" else call(db.is_empty, P[x], i)
        ref.empty[i] = want
        if got != ("ok", want):
            return f"is_empty(class {x}) = {got}, the class's own answer is {want}"
    elif kind == "is_empty_x":
        # the class's own emptiness computation is interrupted (raises) during this query;
        # nothing may be cached from it, so the state must be the one before the call
        i = ref.index(P[x])
        if i is None or ref.empty[i] is not None:
            return None  # not enabled: unknown class, or emptiness already cached (no computation to interrupt)
        dw.INTERRUPT_IS_EMPTY[0] = True
        try:
            got = call(db.is_empty, P[x], i)
        finally:
            armed, dw.INTERRUPT_IS_EMPTY[0] = dw.INTERRUPT_IS_EMPTY[0], False
        if armed:
            return f"is_empty(class {x}) with no cached answer did not ask the class"
        if got != ("exc", "InterruptedComputation"):
            return f"is_empty(class {x}) = {got} although the class's computation was interrupted"
    elif kind == "set_empty":
        i = ref.index(P[x])
        if i is None:
            return None
        want = P[x].is_empty()
        got = call(db.set_empty, i, want)
        ref.empty[i] = want
        if got[0] != "ok":
            return f"set_empty(label {i}) raised {got[1]}"
    elif kind == "get_class_l":
        known = 0 <= x < len(ref.classes)
        got = call(db.get_class, x)
        if known:
            if got[0] != "ok" or got[1] != ref.classes[x]:
                return f"get_class({x}) = {got}, expected {ref.classes[x]!r}"
        elif got[0] != "exc" or got[1] not in ("KeyError", "IndexError"):
            return f"get_class({x}) with {len(ref.classes)} stored classes = {got}, expected a lookup error"
    elif kind == "get_label_l":
        known = 0 <= x < len(ref.classes)
        got = call(db.get_label, x)
        if known:
            if got != ("ok", x):
                return f"get_label({x}) = {got}"
        elif got[0] != "exc" or got[1] not in ("KeyError", "IndexError"):
            return f"get_label({x}) with {len(ref.classes)} stored classes = {got}, expected a lookup error"
    elif kind == "contains_l":
        want = 0 <= x < len(ref.classes)
        got = call(db.__contains__, x)
        if got != ("ok", want):
            return f"({x} in db) with {len(ref.classes)} stored classes = {got}, expected {want}"
    else:
        raise HarnessError(f"unknown op {op}")
    return None


def invariants(db, ref: Ref) -> Optional[str]:
    n = len(ref.classes)
    try:
        if sorted(db) != list(range(n)):
            return f"labels are {sorted(db)}, expected 0..{n - 1}"
        if len(db.comb_class_list) != n or len(db.empty_list) != n or len(db.label_dict) != n:
            return "backing lists have different lengths"
        for i, c in enumerate(ref.classes):
            got = db.comb_class_list[i]
            got = db._decompress(got) if isinstance(got, bytes) else got
            if got != c:
                return f"class stored under label {i} is {got!r}, expected {c!r}"
            e = db.empty_list[i]
            if e is not None and e != c.is_empty():
                return f"cached emptiness of label {i} is {e}, the class answers {c.is_empty()}"
    except Exception as e:  # noqa: BLE001
        return f"{type(e).__name__}: {e} while reading the database"
    return None


def build(cls, P, hist) -> Tuple[Any, Ref, Optional[Tuple[int, str]]]:
    from comb_spec_searcher.class_db import ClassDB

    db = ClassDB(cls)
    ref = Ref()
    for i, op in enumerate(hist):
        err = step(db, ref, P, op)
        if err:
            return db, ref, (i, err)
    return db, ref, None


def site_of(op) -> str:
    return {
        "get_label": "ClassDB.get_label",
        "get_label_l": "ClassDB.get_label",
        "get_class_c": "ClassDB.get_class",
        "get_class_l": "ClassDB.get_class",
        "contains_c": "ClassDB.__contains__",
        "contains_l": "ClassDB.__contains__",
        "is_empty": "ClassDB.is_empty",
        "is_empty_l": "ClassDB.is_empty",
        "set_empty": "ClassDB.set_empty",
        "is_empty_x": "ClassDB.is_empty",
    }[op[0]]


def clause_of(op, err: str) -> str:
    if op[0] == "contains_l":
        return "label-membership-not-total"
    if op[0] in ("get_class_l", "get_label_l") and "expected a lookup error" in err:
        return "unknown-label-lookup"
    return "disagrees-with-reference"


def _worker(arg) -> Acc:
    cls_name, max_depth = arg
    cls = {"W": dw.W, "WB": dw.WB, "WC": dw.WC, "WCB": dw.WCB}[cls_name]
    acc = Acc()
    P = pool(cls)
    OPS = ops(len(P))
    seen = set()
    db0, ref0, _ = build(cls, P, [])
    seen.add(hash(canon(db0)))
    frontier: List[List[Tuple]] = [[]]
    depth = 0
    closed = False
    reported = set()
    while frontier and depth < max_depth:
        nxt = []
        for hist in frontier:
            for op in OPS:
                h2 = hist + [op]
                db, ref, err = build(cls, P, h2)
                acc.count("transitions")
                acc.count("traces")
                payload = {"cls": cls_name, "history": [list(o) for o in h2]}
                if err is not None:
                    i, msg = err
                    # the state after a failed step is not explored further
                    key = (op, msg.split(" with ")[0])
                    if i == len(h2) - 1:
                        acc.violation(clause_of(op, msg), site_of(op), f"{cls_name}:{op[0]}({op[1]})", f"after {hist}: {msg}", payload)
                    continue
                inv = invariants(db, ref)
                if inv:
                    acc.violation("invariant", site_of(op), f"{cls_name}:{op[0]}", f"after {h2}: {inv}", payload)
                    continue
                k = hash(canon(db))
                if k in seen:
                    continue
                seen.add(k)
                acc.nt((cls_name, k))
                nxt.append(h2)
        frontier = nxt
        depth += 1
    if not frontier:
        closed = True
    acc.n["states"] = len(seen)
    acc.notes["closed_" + cls_name] = closed
    acc.notes["depth_" + cls_name] = depth
    if nxt if not closed else True:
        pass
    acc.sample({"class_type": cls_name, "states": len(seen), "closed": closed, "depth_reached": depth,
                "ops": len(OPS), "example_history": [list(o) for o in (frontier[0] if frontier else [("get_label", 2), ("is_empty", 2), ("contains_l", 1)])]})
    return acc


def roundtrip_family() -> List[Tuple[str, Tuple[str, ...], str]]:
    """(prefix, patterns, alphabet): encoded lengths from a few bytes to ~70, repetitive and not."""
    fam = []
    for n in range(0, 41):
        fam.append(("a" * n, ("b",), "ab"))
        fam.append((("ab" * n)[:n], (), "ab"))
        fam.append((("aab" * n)[:n], ("bbb", "aaaa"), "ab"))
    return fam


def _roundtrip_worker(cls_name: str) -> Acc:
    """E3: every class of the family through a fresh database and through one shared database:
    get_label, get_class by label and by class, membership; compressed keys must decode to an
    equal class."""
    from comb_spec_searcher.class_db import ClassDB

    cls = {"WK": dw.WK, "WB": dw.WB}[cls_name]
    acc = Acc()
    shared = ClassDB(cls)
    ref: List[Any] = []
    for pre, pats, al in roundtrip_family():
        c = cls(pre, pats, al)
        payload = {"cls": cls_name, "roundtrip": [pre, list(pats), al]}
        for db in (ClassDB(cls), shared):
            expect = len(db.comb_class_list)  # every class of the family is new to the database
            acc.count("traces")
            acc.count("evaluations")
            try:
                l = db.get_label(c)
                back = db.get_class(l)
                again = db.get_label(cls(pre, pats, al))
                ok = l == expect and back == c and again == l and (c in db) and db.get_class(c) == c
                stored = db.comb_class_list[l]
                ok = ok and (db._decompress(stored) if isinstance(stored, bytes) else stored) == c
            except Exception as e:  # noqa: BLE001
                acc.violation("round-trip-raises", "ClassDB._decompress", f"{cls_name}:len{len(c.to_bytes())}",
                              f"class {c.sid()} (encoding of {len(c.to_bytes())} bytes): {type(e).__name__}: {str(e)[:120]}", payload)
                break
            if not ok:
                acc.violation("disagrees-with-reference", "ClassDB.get_class", f"{cls_name}:len{len(c.to_bytes())}",
                              f"class {c.sid()} (encoding of {len(c.to_bytes())} bytes): label {l} (expected {expect}), read back {back!r}", payload)
                break
        else:
            acc.nt((cls_name, "rt", pre, pats))
        ref.append(c)
    return acc


def _task(arg) -> Acc:
    if arg[0] == "roundtrip":
        return _roundtrip_worker(arg[1])
    return _worker(arg)


def self_test() -> None:
    r = Ref()
    P = pool(dw.W)
    if r.add(P[0]) != 0 or r.add(P[1]) != 0 or r.add(P[2]) != 1 or r.index(P[3]) is not None:
        raise HarnessError("reference class database self test")
    if not P[3].is_empty() or P[0].is_empty():
        raise HarnessError("pool emptiness self test")


def run(ctx: Ctx) -> None:
    self_test()
    depth = 10 if ctx.quick else 14
    ctx.rule = (
        "breadth-first search over histories of get_label/get_class/in/is_empty/set_empty/interrupted is_empty over a pool of 5 class objects "
        "(4 distinct, 2 equal, 1 empty) and labels -2..6, for the plain and the byte-compressed class type, each also with colliding hashes, deduplicated on "
        "the three backing lists; every transition compared with a list-backed reference and invariants evaluated in every "
        "state; plus every class of a 123-class family with encodings of 7..70 bytes (compact and JSON encodings) through a fresh and a shared database; "
        "non-trivial = distinct database states and round-tripped classes"
    )
    ctx.assumptions = ["callers pass set_empty the class's true emptiness (as the searcher does)",
                       "is_empty is only asked of classes that already have a label"]
    ctx.bounds = {"max_depth": depth, "pool": 5, "labels": LABELS}
    ctx.pmap(_task, [("W", depth), ("WB", depth), ("WC", depth), ("WCB", depth), ("roundtrip", "WK"), ("roundtrip", "WB")])
    ctx.bounds["roundtrip_family"] = len(roundtrip_family())
    for k in ("closed_W", "closed_WB", "closed_WC", "closed_WCB"):
        if not ctx.acc.notes.get(k):
            ctx.acc.cap(f"state space not closed at depth {depth} ({k})")


def replay(acc: Acc, payload: dict) -> None:
    if "roundtrip" in payload:
        acc.merge(_roundtrip_worker(payload["cls"]))
        return
    cls = {"W": dw.W, "WB": dw.WB, "WC": dw.WC, "WCB": dw.WCB}[payload["cls"]]
    P = pool(cls)
    hist = [tuple(o) for o in payload["history"]]
    db, ref, err = build(cls, P, hist)
    if err is not None:
        i, msg = err
        op = hist[i]
        acc.violation(clause_of(op, msg), site_of(op), f"{payload['cls']}:{op[0]}({op[1]})", msg, payload)
        return
    inv = invariants(db, ref)
    if inv:
        acc.violation("invariant", site_of(hist[-1]), f"{payload['cls']}:{hist[-1][0]}", inv, payload)
