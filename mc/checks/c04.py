"""C04 — the rule universe built by the searcher is faithful to the strategies.

The executions of the search lattice (E2 schedules within the deviation bound,
packs with factories yielding strategies or ready rules, foreign parents,
symmetries, inferral chains, verification strategies); every call of
ruledb.add(start, ends, rule) is an observation point.
"""

from __future__ import annotations

from typing import Any, List

from mc import domain_w as dw
from mc import env
from mc.core import Acc, Ctx
from mc.checks.common_search import ConfigExplorer, replay_execution, undocumented_exception
from mc.search import Cfg, DBS, Execution
from mc.specs import allowed_strategies

LEVEL = "model_checking"
GATE_N = 5
_GATED = set()


def make_db_hook(cfg):
    pack = cfg.make_pack()
    if cfg.to_json().get("domain") == "G":
        from mc import domain_g as dg

        brute_empty, gate_rule = dg.brute_empty, dg.gate_rule
    else:
        brute_empty, gate_rule = dw.brute_empty, dw.gate_rule

    def db_hook(db):
        from comb_spec_searcher.rule_db.base import RuleDBBase
        from comb_spec_searcher.rule_db.forest import RuleDBForest
        from comb_spec_searcher.strategies.rule import VerificationRule
        from comb_spec_searcher.strategies.strategy import EmptyStrategy

        db._verif_problems = []
        db._verif_adds = 0
        db._verif_kinds = set()
        orig = db.add

        def problem(clause: str, msg: str) -> None:
            if len(db._verif_problems) < 6:
                db._verif_problems.append((clause, f"insertion {db._verif_adds}: {msg}"))

        def add(start, ends, rule):
            db._verif_adds += 1
            s = db.searcher
            classdb = s.classdb
            children = rule.children
            db._verif_kinds.add(type(rule.strategy).__name__)
            # the parent label carries the rule's class
            try:
                pc = classdb.get_class(start)
            except Exception as e:  # noqa: BLE001
                pc = None
                problem("parent-label", f"label {start} unknown: {type(e).__name__}")
            if pc is not None and pc != rule.comb_class:
                problem("parent-label", f"rule of {rule.comb_class!r} ({rule.strategy!r}) recorded under label {start} = {pc!r}")
            # the child labels are the labels of the children
            if len(ends) != len(children):
                problem("child-labels", f"{len(ends)} labels for {len(children)} children")
            else:
                for l, c in zip(ends, children):
                    if classdb.get_class(l) != c:
                        problem("child-labels", f"label {l} = {classdb.get_class(l)!r} recorded for child {c!r}")
            # the rule is what a pack strategy produces on that class
            strat = rule.strategy
            if isinstance(strat, EmptyStrategy):
                if not brute_empty(rule.comb_class):
                    problem("empty-rule-for-nonempty", f"empty rule for non-empty {rule.comb_class!r}")
            else:
                allowed = allowed_strategies(pack, (rule.comb_class,) + tuple(children))
                if not any(type(a) is type(strat) and a == strat for a in allowed):
                    problem("not-a-pack-strategy", f"{strat!r} on {rule.comb_class!r}")
                elif isinstance(rule, VerificationRule):
                    if not strat.verified(rule.comb_class):
                        problem("strategy-does-not-apply", f"{strat!r} does not verify {rule.comb_class!r}")
                else:
                    fresh = strat.decomposition_function(rule.comb_class)
                    if fresh is None or tuple(fresh) != tuple(children):
                        problem("strategy-does-not-apply", f"{strat!r} on {rule.comb_class!r} gives {fresh}, recorded {children}")
                    else:
                        gk = (repr(strat), rule.comb_class.key())
                        if gk not in _GATED:
                            _GATED.add(gk)
                            g = gate_rule(rule, GATE_N)
                            if g:
                                from mc.core import HarnessError

                                raise HarnessError(f"domain gate: {g}")
            orig(start, ends, rule)
            # what was stored
            truly_ne = tuple(sorted(l for l, c in zip(ends, children) if not (rule.possibly_empty and brute_empty(c))))
            if not rule.possibly_empty and not brute_empty(rule.comb_class) and any(brute_empty(c) for c in children):
                from mc.core import HarnessError

                raise HarnessError(f"domain: {strat!r} declared possibly_empty=False but produced an empty child of {rule.comb_class!r}")
            if isinstance(db, RuleDBBase):
                stored = set(iter(db))
                if (start, truly_ne) not in stored and truly_ne != (start,):
                    near = sorted(k for k in stored if k[0] == start)
                    problem("stored-key", f"expected key {(start, truly_ne)} (labels of the truly non-empty children), keys of {start}: {near}")
            elif isinstance(db, RuleDBForest):
                keys = {(fk.parent, fk.children): fk for fk in db.table_method._rules}
                if (start, tuple(ends)) not in keys:
                    problem("stored-key", f"forest has no key {(start, tuple(ends))}")
                empties = {fk.parent for fk in db.table_method._rules if fk.bucket.name == "VERIFICATION" and not fk.children
                           and brute_empty(classdb.get_class(fk.parent))}
                if rule.possibly_empty:
                    for l, c in zip(ends, children):
                        if brute_empty(c) and l not in empties:
                            problem("forest-empty-rule-missing", f"empty child {c!r} (label {l}) has no empty rule")
                for lab in db._already_empty:
                    if not brute_empty(classdb.get_class(lab)):
                        problem("empty-rule-for-nonempty", f"label {lab} = {classdb.get_class(lab)!r} got an empty rule")
            # labels <-> classes is a bijection, cached emptiness is the truth
            cl = [classdb.get_class(i) for i in range(len(classdb.comb_class_list))]
            first_label: dict = {}
            for i in range(len(cl)):
                j = first_label.setdefault(cl[i], i)
                if j != i:
                    problem("label-bijection", f"labels {j} and {i} carry equal classes {cl[i]!r}")
                if classdb.get_label(cl[i]) != i:
                    problem("label-bijection", f"get_label(get_class({i})) = {classdb.get_label(cl[i])}")
                e = classdb.empty_list[i]
                if e is not None and e != brute_empty(cl[i]):
                    problem("cached-emptiness", f"label {i} = {cl[i]!r} cached as empty={e}")

        db.add = add

    return db_hook


def checker(acc: Acc, cfg: Cfg, ex: Execution, payload: dict) -> None:
    undocumented_exception(acc, cfg, ex, payload)
    if ex.searcher is None:
        return
    db = ex.searcher.ruledb
    acc.count("evaluations", getattr(db, "_verif_adds", 0))
    acc.count("states", getattr(db, "_verif_adds", 0))
    for clause, msg in getattr(db, "_verif_problems", [])[:3]:
        acc.violation(clause, "RuleDBAbstract.add", cfg.sid(), f"{msg} (decisions {payload['prefix']})", dict(payload, kind="execution"))
    acc.nt((cfg.sid(), tuple(sorted(getattr(db, "_verif_kinds", ()))), getattr(db, "_verif_adds", 0)))


def configs(tier: str) -> List[Cfg]:
    classes = dw.start_classes("quick")
    if tier == "quick":
        stats_list = [(), ("a", "ab")]
        packs = ["base", "norm+sym", "sym", "inf2", "inf2r", "rfac", "rfac2", "rfac+sym", "sfac", "ver:a,b", "dropempty", "inf1+rfac", "two", "norm+atomlast", "oneway+inf1", "onewayexp+sym"]
        dbs = ("RuleDB", "Forest", "Forget")
    else:
        stats_list = [(), ("a",), ("a", "ab")]
        packs = ["base", "norm", "norm+sym", "sym", "inf1", "inf2", "inf2r", "rfac", "rfac+sym", "rfaconly", "sfac", "ver:a,b", "ver:e",
                 "dropempty", "inf1+rfac", "inf2+rfac+sym", "two", "noinit", "swapped", "norm+inf2+sym", "sfac+sym", "verfirst:a,ab+sym",
                 "rfac+iter", "sym+iter", "rfac2", "rfac2+sym", "rfac2+inf1", "norm+atomlast", "atomlast+sym", "oneway", "oneway+inf1", "onewayexp+inf1+sym", "oneway+inf2",
                 "rfac3", "oneway2+inf1", "flip"]
        dbs = ("RuleDB", "Forest", "Forget")
    res = []
    if tier != "quick":
        res += configs("quick")  # explored with deviation bound 2 (see _worker)
        for c in [c for c in dw.start_classes("thorough") if c not in classes]:
            for pk in ("base", "norm+sym", "rfac", "rfac2", "inf2", "oneway+inf1"):
                for db in ("RuleDB", "Forest"):
                    res.append(Cfg.of(c, pk, db))
    for c in classes:
        for st in stats_list:
            for pk in packs:
                for db in dbs:
                    res.append(Cfg.of(c.with_(stats=st), pk, db))
        res.append(Cfg.of(c, "rfac", "RuleDB", compressed=True))
        res.append(Cfg.of(c, "sym", "Forest", expand_verified=True))
    # parse-tree domain: products with a repeated factor (N0 -> a a, N0 -> N0 N0 | a, ...),
    # unit chains, reverse universes
    from mc import domain_g as dg
    from mc.search import GCfg

    one = dg.grammars("one")
    repeated = [g for g in one if any(len(set(alt)) < len(alt) for alt in g[0])]
    gs = repeated + ([g for g in one if g not in repeated][:60] if tier == "quick" else [g for g in one if g not in repeated])
    for g in gs:
        for db in ("RuleDB", "Forest", "Forget") if tier == "quick" else DBS:
            res.append(GCfg(g, (), "g", db))
    for g, pk, _genuine in dg.reverse_universes():
        res.append(GCfg(g, (), pk, "Forest"))
    seen = set()
    uniq = []
    for c in res:
        if c not in seen:
            seen.add(c)
            uniq.append(c)
    return uniq


_QUICK: Any = None


def bound_for(cfg, tier: str) -> int:
    """quick: 1.  thorough: 2 on the configurations of the quick tier, 1 on the extension."""
    global _QUICK
    if tier == "quick":
        return 1
    if _QUICK is None:
        _QUICK = {c.sid() for c in configs("quick")}
    return 2 if cfg.sid() in _QUICK else 1


def _worker(arg) -> Acc:
    cfgj, tier = arg
    cfg = Cfg.from_json(cfgj)
    acc = Acc()
    ce = ConfigExplorer(acc, cfg, tier, [checker], db_hook=make_db_hook(cfg), bound=bound_for(cfg, tier), bound2_max_points=16, horizon=60 if tier == "quick" else 80, light_bound1=True)
    ce.explore_e2()
    if hash(cfg.sid()) % 301 == 0:
        acc.sample({"configuration": cfg.sid(), "outcomes": ce.outcomes})
    env.clear_library_caches()
    dw._BF_CACHE.clear()
    return acc


def run(ctx: Ctx) -> None:
    cfgs = configs(ctx.tier)
    ctx.rule = (
        "configuration lattice (packs with strategy factories, rule factories with foreign parents, symmetries, inferral chains, "
        "verification strategies; 3-4 rule databases) x schedules within the deviation bound; every call of ruledb.add in every "
        "execution is one evaluation; non-trivial = distinct (configuration, strategy kinds recorded, number of insertions)"
    )
    ctx.assumptions = ["emptiness judged by the domain's exact predicate; every rule met passes the domain gate (set arithmetic, sizes <= %d)" % GATE_N]
    ctx.bounds = {"configurations": len(cfgs), "deviations": 1 if ctx.quick else "2 on the quick tier's configurations (default execution <= 16 decision points), 1 on the extension",
                  "horizon_packets": 60 if ctx.quick else 80}
    ctx.pmap(_worker, [(c.to_json(), ctx.tier) for c in cfgs], chunksize=2)


def replay(acc: Acc, payload: dict) -> None:
    cfg = Cfg.from_json(payload["cfg"])
    cfg, ex = replay_execution(payload, db_hook=make_db_hook(cfg))
    checker(acc, cfg, ex, payload)
