"""C14 — default and memory-saving rule databases are observationally identical.

E1 lock-step: the same configuration is run with RuleDB and RuleDBForgetStrategy
under the same schedule; every call of ruledb.add is an observation point.  After
every insertion: verified labels, has_specification, stored keys, membership for
stored and non-stored keys, and the strategy handed back for every stored key of a
non-empty class (re-applied).  The two observation logs must be equal.
"""

from __future__ import annotations

from itertools import combinations_with_replacement
from typing import Any, Dict, List, Tuple

from mc import domain_g as dg
from mc import domain_w as dw
from mc import env
from mc.core import Acc, Ctx, HarnessError
from mc.search import Cfg, GCfg, call_site, execute

LEVEL = "model_checking"
MAX_LABELS_MEMBERSHIP = 5


def observe(db, full: bool) -> Tuple[Dict[str, Any], List[str]]:
    """Observations of one rule database; problems that do not need the twin."""
    probs: List[str] = []
    s = db.searcher
    classdb = s.classdb
    n = len(classdb.comb_class_list)
    obs: Dict[str, Any] = {}
    try:
        stored = set(iter(db))
    except Exception as e:  # noqa: BLE001
        return {"error": f"iter: {type(e).__name__}"}, [f"iterating the database raised {type(e).__name__}: {e}@@{call_site(e)}"]
    obs["stored"] = tuple(sorted(stored))
    if full:
        try:
            obs["has_specification"] = db.has_specification()
        except Exception as e:  # noqa: BLE001
            probs.append(f"has_specification raised {type(e).__name__}: {e}@@{call_site(e)}")
    try:
        obs["verified"] = tuple(l for l in range(n) if db.is_verified(l))
    except Exception as e:  # noqa: BLE001
        probs.append(f"is_verified raised {type(e).__name__}: {e}@@{call_site(e)}")
    # membership: stored keys and every non-stored key of arity <= 2 over the first labels
    m = min(n, MAX_LABELS_MEMBERSHIP)
    queries = set(stored)
    for a in range(m):
        queries.add((a, ()))
        for k in (1, 2):
            for ends in combinations_with_replacement(range(m), k):
                queries.add((a, ends))
    mem = []
    for start, ends in sorted(queries):
        try:
            r = db.contains(start, ends)
        except Exception as e:  # noqa: BLE001
            probs.append(f"contains({start}, {ends}) raised {type(e).__name__}: {e}@@base.py:contains")
            break
        if not isinstance(r, bool) or r != ((start, ends) in stored):
            probs.append(f"contains({start}, {ends}) = {r!r}, stored: {(start, ends) in stored}@@base.py:contains")
            break
        mem.append(r)
    obs["membership"] = tuple(mem)
    # strategies handed back
    handed = []
    stores: List[bool] = []
    for key in sorted(stored):
        start, ends = key
        parent = classdb.get_class(start)
        brute_empty = dg.brute_empty if isinstance(parent, dg.G) else dw.brute_empty
        if brute_empty(parent):
            continue
        try:
            if key in db.rule_to_strategy:
                strat = db.rule_to_strategy[key]
                two_way_store = False
            else:
                strat = db.eqv_rule_to_strategy[key]
                two_way_store = True
            rule = strat(parent)
            if two_way_store and not rule.is_two_way():
                probs.append(f"strategy handed back from the two-way store for {key} is not two-way: {strat!r}@@eqv_rule_to_strategy")
            stores.append(two_way_store)
            ne = tuple(sorted(classdb.get_label(c) for c in rule.children if not brute_empty(c)))
            got = (classdb.get_label(rule.comb_class), ne)
        except Exception as e:  # noqa: BLE001
            probs.append(f"strategy for stored key {key} could not be handed back / re-applied: {type(e).__name__}: {str(e)[:120]}@@{call_site(e)}")
            continue
        if got != key:
            probs.append(f"strategy handed back for {key} reproduces {got}@@rule_to_strategy")
        handed.append(repr(strat))
    # which strategy is handed back may differ between the two databases when
    # several strategies produce the same key; only its re-application is required
    obs["strategies_handed_back"] = len(handed)
    obs["two_way_store"] = tuple(stores)
    return obs, probs


def run_one(cfg: Cfg, full: bool, horizon: int, prefix=()) -> Tuple[List[Any], List[str], str]:
    log: List[Any] = []
    probs: List[str] = []

    def db_hook(db):
        orig = db.add

        def add(start, ends, rule):
            orig(start, ends, rule)
            log.append(("add", start, tuple(ends), repr(rule.strategy)))
            if hasattr(db, "_searcher") and db._searcher is not None:
                o, p = observe(db, full)
                log.append(o)
                for x in p:
                    if len(probs) < 5:
                        probs.append(f"after insertion {len(log) // 2}: {x}")

        db.add = add

    ex = execute(cfg, prefix, slice_default=0, horizon=horizon, db_hook=db_hook)
    outcome = ex.outcome
    if ex.outcome == "exception":
        probs.append(f"auto_search raised {type(ex.exc).__name__}: {str(ex.exc)[:150]}@@{ex.site}")
    if ex.searcher is not None:
        o, p = observe(ex.searcher.ruledb, True)
        log.append(("final", o))
        probs.extend(p)
    return log, probs, outcome


def check_cfg(acc: Acc, cfg: Cfg, full: bool, horizon: int) -> None:
    a = Cfg.from_json(dict(cfg.to_json(), db="RuleDB"))
    b = Cfg.from_json(dict(cfg.to_json(), db="Forget"))
    payload = {"cfg": cfg.to_json(), "full": full, "horizon": horizon}
    la, pa, oa = run_one(a, full, horizon)
    lb, pb, ob = run_one(b, full, horizon)
    acc.count("traces", 2)
    n_ins = sum(1 for x in la if isinstance(x, tuple) and x and x[0] == "add")
    acc.count("transitions", 2 * n_ins)
    acc.count("states", 2 * n_ins)
    acc.count("evaluations", n_ins)
    where = f"{cfg.sid()}//{'full' if full else 'light'}"
    for name, ps in (("RuleDB", pa), ("RuleDBForgetStrategy", pb)):
        for p in ps[:2]:
            msg, _, site = p.partition("@@")
            clause = "contains" if "contains(" in msg else "strategy-handed-back" if "strategy" in msg else "exception"
            acc.violation(clause, site or name, where, f"{name}: {msg}", payload)
    if oa != ob:
        acc.violation("different-outcome", "RuleDBForgetStrategy", where, f"search outcome {oa} with RuleDB, {ob} with the memory-saving database", payload)
    for i, (x, y) in enumerate(zip(la, lb)):
        if x != y:
            if isinstance(x, dict) and isinstance(y, dict):
                diff = [k for k in set(x) | set(y) if x.get(k) != y.get(k)]
                detail = f"observation {i} differs on {diff}: RuleDB {[(k, x.get(k)) for k in diff][:2]} vs memory-saving {[(k, y.get(k)) for k in diff][:2]}"
                clause = "observations-differ:" + ",".join(sorted(diff))
            else:
                detail = f"log entry {i} differs: RuleDB {x} vs memory-saving {y}"
                clause = "add-stream-differs"
            acc.violation(clause, "RuleDBForgetStrategy", where, detail[:600], payload)
            break
    else:
        if len(la) != len(lb):
            acc.violation("add-stream-differs", "RuleDBForgetStrategy", where, f"{len(la)} vs {len(lb)} log entries", payload)
    if n_ins:
        acc.nt((where, tuple(x for x in la if isinstance(x, tuple) and x[0] == "add")))
        acc.outcome((oa, tuple(sorted(str(x)[:50] for x in la[-1:]))))


def configs(tier: str) -> List[Cfg]:
    classes = dw.start_classes("quick")
    if tier == "quick":
        stats_list = [(), ("a", "ab")]
        packs = ["base", "ver:a,b", "ver:e,a", "ver:e", "ver:b,ab", "verfirst:a,ab", "verfirst:e", "norm+sym", "sym", "inf1",
                 "inf2", "inf2r", "rfac", "sfac", "two", "noinit", "dropempty", "ver:a,b+sym", "ver:a+inf2", "ver:a,b+rfac",
                 "base+iter", "inf1+iter", "ver:a,b+iter", "rfac2", "oneway", "oneway+inf1", "onewayexp+inf1", "oneway+inf1+sym", "oneway+inf2", "oneway+inf1+iter", "rfac3", "oneway2", "oneway2+inf1", "oneway2+sym", "mfac", "mfac+inf1"]
        opts = [{}, {"expand_verified": True}]
    else:
        stats_list = [(), ("a",), ("a", "ab")]
        packs = ["base", "ver:a,b", "ver:e,a", "ver:e", "ver:b,ab", "verfirst:a,ab", "verfirst:e", "norm+sym", "sym", "inf1",
                 "inf2", "inf2r", "rfac", "sfac", "two", "noinit", "dropempty", "ver:a,b+sym", "ver:a+inf2", "ver:a,b+rfac",
                 "base+iter", "inf1+iter", "ver:a,b+iter", "rfac2", "oneway", "oneway+inf1", "onewayexp+inf1", "oneway+inf1+sym", "oneway+inf2", "oneway+inf1+iter", "rfac3", "oneway2", "oneway2+inf1", "oneway2+sym", "mfac", "mfac+inf1", "mfac+sym"]
        opts = [{}, {"expand_verified": True}]
        classes = classes + [c for c in dw.start_classes("thorough") if c not in classes][:60]
    res = []
    for c in classes:
        for st in stats_list:
            for pk in packs:
                for o in opts:
                    res.append(Cfg.of(c.with_(stats=st), pk, "RuleDB", **o))
    # parse-tree domain: rules in which the same non-empty class occurs twice among the children
    fams = ["one"] if tier == "quick" else ["one", "two"]
    for fam in fams:
        gs = dg.grammars(fam)
        if fam == "two":
            gs = gs[::6]  # every 6th two-nonterminal grammar (the full family made the tier too long)
        for g in gs:
            res.append(GCfg(g, (), "g", "RuleDB"))
    return res


def _worker(arg) -> Acc:
    cfgj, tier = arg
    cfg = Cfg.from_json(cfgj)
    acc = Acc()
    horizon = 40 if tier == "quick" else 80
    check_cfg(acc, cfg, True, horizon)
    check_cfg(acc, cfg, False, horizon)
    if hash(cfg.sid()) % 97 == 0:
        acc.sample({"configuration": cfg.sid(), "modes": ["queries incl. has_specification after every insertion", "queries without has_specification"]})
    env.clear_library_caches()
    return acc


def run(ctx: Ctx) -> None:
    cfgs = configs(ctx.tier)
    ctx.rule = (
        "every configuration of the stated lattice is run with the default and the memory-saving rule database under the same "
        "schedule; every ruledb.add is an observation point (verified labels, has_specification, stored keys, membership "
        "for stored and all non-stored keys of arity <= 2 over the first 5 labels, re-applied strategies); a case is one "
        "insertion in one configuration; non-trivial = distinct (configuration, add stream) pairs with at least one insertion"
    )
    ctx.assumptions = ["has_specification queries between insertions mark labels verified in both databases alike (second mode runs without them)"]
    ctx.bounds = {"configurations": len(cfgs), "horizon_packets": 40 if ctx.quick else 80}
    ctx.pmap(_worker, [(c.to_json(), ctx.tier) for c in cfgs], chunksize=2)


def replay(acc: Acc, payload: dict) -> None:
    check_cfg(acc, Cfg.from_json(payload["cfg"]), payload["full"], payload["horizon"])
