"""C13 — the parallel specification finder is total and its output is a matched pair.

E3: all ordered pairs of start classes from the quick class set x packs {base,
+symmetry, +inferral} (start classes sitting in non-trivial equivalence classes
whose representative is another label) x both finder variants.  Oracle: find()
returns None or two specifications, each valid for its own start class (C01/C02
oracles), isomorphic, and the constructed bijection passes the C12 oracle.
"""

from __future__ import annotations

from typing import Any, List, Tuple

from mc import domain_w as dw
from mc import env
from mc.core import Acc, Ctx, deadline
from mc.checks import c12
from mc.search import Cfg, build_searcher, call_site
from mc.specs import count_problems, structure_problems

LEVEL = "exploration"
N = 5


def run_pair(acc: Acc, ca: Cfg, cb: Cfg, variant: str) -> None:
    from comb_spec_searcher.bijection import EqPathParallelSpecFinder, ParallelSpecFinder
    from comb_spec_searcher.isomorphism import Isomorphism

    Finder = ParallelSpecFinder if variant.startswith("plain") else EqPathParallelSpecFinder
    where = f"{variant}: {ca.sid()} || {cb.sid()}"
    payload = {"a": ca.to_json(), "b": cb.to_json(), "variant": variant}
    acc.count("traces")
    acc.count("evaluations")
    dec = env.Decisions()
    clock = env.VirtualClock(dec)
    with env.seams(clock=clock, dec=dec):
        try:
            with deadline(120):
                s1, s2 = build_searcher(ca), build_searcher(cb)
                if variant.endswith("+exhausted"):
                    # both universes fully expanded before the finder sees them (more
                    # alternative rules survive pruning)
                    from comb_spec_searcher.exception import NoMoreClassesToExpandError

                    for s in (s1, s2):
                        try:
                            for _ in range(12):
                                s.do_level()
                        except NoMoreClassesToExpandError:
                            pass
                res = Finder(s1, s2).find()
        except Exception as e:  # noqa: BLE001
            acc.violation("finder-raises", call_site(e), where, f"{type(e).__name__}: {str(e)[:200]}", payload)
            return
    if res is None:
        acc.outcome("none")
        return
    try:
        sp1, sp2 = res
    except Exception:  # noqa: BLE001
        acc.violation("bad-return-value", "ParallelSpecFinder.find", where, f"returned {type(res).__name__}", payload)
        return
    for cfg, sp in ((ca, sp1), (cb, sp2)):
        try:
            probs = count_problems(sp, cfg.start(), N) + structure_problems(sp, cfg.start(), cfg.make_pack())
        except Exception as e:  # noqa: BLE001
            acc.violation("returned-specification-invalid", call_site(e), where, f"{cfg.sid()}: {type(e).__name__}: {str(e)[:200]}", payload)
            return
        for p in probs[:1]:
            acc.violation("returned-specification-invalid", "ParallelSpecFinder._create_spec", where, f"{cfg.sid()}: {p}", payload)
            return
    try:
        if not Isomorphism.check(sp1, sp2):
            acc.violation("pair-not-isomorphic", "ParallelSpecFinder.find", where, "the two returned specifications are not isomorphic", payload)
            return
    except Exception as e:  # noqa: BLE001
        acc.violation("finder-raises", call_site(e), where, f"Isomorphism.check on the returned pair: {type(e).__name__}: {str(e)[:200]}", payload)
        return
    before = len(acc.violations)
    c12.check_pair(acc, ca, sp1, cb, sp2, N, payload)
    acc.nt((ca.sid(), cb.sid(), variant))
    acc.outcome(("pair", len(sp1.rules_dict), len(sp2.rules_dict)))


def run_pair_t(acc: Acc, na: str, ta, nb: str, tb, variant: str) -> None:
    """T-domain (finite table universes, mc/domain_t.py): classes that are equivalent to an atom
    and decomposable at once, shared between two parents.  Oracles: no exception; each returned
    specification is closed and counts like the table's own polynomial (plain recursion); the
    pair is isomorphic in both directions."""
    from comb_spec_searcher import CombinatorialSpecificationSearcher
    from comb_spec_searcher.bijection import EqPathParallelSpecFinder, ParallelSpecFinder
    from comb_spec_searcher.exception import NoMoreClassesToExpandError
    from comb_spec_searcher.isomorphism import Isomorphism
    from mc import domain_t as dt

    Finder = ParallelSpecFinder if variant.startswith("plain") else EqPathParallelSpecFinder
    where = f"{variant}: {na} || {nb}"
    payload = {"domain": "T", "a": [na, dt.T(ta, "R").to_jsonable()["table"]], "b": [nb, dt.T(tb, "R").to_jsonable()["table"]], "variant": variant}
    acc.count("traces")
    acc.count("evaluations")
    dec = env.Decisions()
    clock = env.VirtualClock(dec)
    with env.seams(clock=clock, dec=dec):
        try:
            with deadline(60):
                ss = []
                for t in (ta, tb):
                    css = CombinatorialSpecificationSearcher(dt.T(t, "R"), dt.t_pack())
                    try:
                        for _ in range(12):
                            css.do_level()
                    except NoMoreClassesToExpandError:
                        pass
                    ss.append(css)
                res = Finder(ss[0], ss[1]).find()
        except Exception as e:  # noqa: BLE001
            acc.violation("finder-raises", call_site(e), where, f"{type(e).__name__}: {str(e)[:200]}", payload)
            return
    if res is None:
        acc.outcome("none")
        if ta == tb:
            acc.count("identical_tables_not_matched")
        return
    try:
        sp1, sp2 = res
    except Exception:  # noqa: BLE001
        acc.violation("bad-return-value", "ParallelSpecFinder.find", where, f"returned {type(res).__name__}", payload)
        return
    try:
        for t, sp, nm in ((ta, sp1, na), (tb, sp2, nb)):
            if sp.root != dt.T(t, "R"):
                acc.violation("returned-specification-invalid", "ParallelSpecFinder._create_spec", where, f"{nm}: root is {sp.root!r}", payload)
                return
            for rule in sp.rules_dict.values():
                for ch in rule.children:
                    if ch not in sp.rules_dict:
                        acc.violation("returned-specification-invalid", "ParallelSpecFinder._create_spec", where, f"{nm}: child {ch!r} of the rule of {rule.comb_class!r} has no rule", payload)
                        return
            got = [sp.count_objects_of_size(n) for n in range(9)]
            want = [dt.count(t, "R", n) for n in range(9)]
            if got != want:
                acc.violation("returned-specification-invalid", "ParallelSpecFinder._create_spec", where, f"{nm}: counts {got}, the table gives {want}", payload)
                return
        fwd, bwd = Isomorphism.check(sp1, sp2), Isomorphism.check(sp2, sp1)
    except Exception as e:  # noqa: BLE001
        acc.violation("finder-raises", call_site(e), where, f"using the returned pair: {type(e).__name__}: {str(e)[:200]}", payload)
        return
    if not (fwd and bwd):
        acc.violation("pair-not-isomorphic", "ParallelSpecFinder.find", where, f"the two returned specifications are not isomorphic (check: {fwd}, reversed: {bwd})", payload)
        return
    acc.nt((na, nb, variant))
    acc.outcome(("pair", len(sp1.rules_dict), len(sp2.rules_dict)))


def _worker_t(arg) -> Acc:
    tier, lo, hi = arg
    from mc import domain_t as dt

    acc = Acc()
    tabs = dt.tables(tier)
    pairs = [(a, b) for a in tabs for b in tabs]
    for (na, ta), (nb, tb) in pairs[lo:hi]:
        # only tables with the same counting polynomial can be matched at all; a sample of the
        # others is kept for the "nothing found" side
        if dt.poly(ta, "R") != dt.poly(tb, "R") and hash((na, nb)) % 7:
            continue
        for variant in ("plain", "eqpath"):
            run_pair_t(acc, na, ta, nb, tb, variant)
    if lo == 0:
        acc.sample({"domain": "T", "tables": [n for n, _ in tabs][:6], "pairs": len(pairs)})
    env.clear_library_caches()
    return acc


def r_configs(tier: str) -> List[Tuple[Any, Any, str]]:
    """Regular languages (R-domain): every class has a first-letter and a last-letter
    decomposition, classes are shared between them, so the finder meets alternative rules,
    one class with several partners, and candidates it has to give up again."""
    from mc import domain_r as dr
    from mc.search import RCfg

    langs = list(dr.languages(2))
    res = []
    if tier == "quick":
        # ("rxebR", "r") / ("rxeaR", "r"): the smallest pack pairs in which D17 shows
        packs = [("r", "r"), ("rxebR", "r"), ("rxeaR", "r")]
        variants = ("plain+exhausted", "eqpath+exhausted")
    else:
        packs = [("r", "r"), ("rL", "rR"), ("r2", "r2R"), ("r", "rL")]
        # restricted last-letter strategies on one side: classes of one universe then have
        # different sets of alternative rules, listed in different orders
        packs += [(f"rx{o}{l}{r}", other) for o in "en" for l in "ab" for r in ("", "R") for other in ("r", "rRL")]
        variants = ("plain", "eqpath", "plain+exhausted", "eqpath+exhausted")
    for pa, pb in packs:
        for a in langs:
            for b in langs:
                # only pairs with equal counting sequences up to size 4 can be matched at all;
                # a sample of the others is kept (every 11th) for the "returns None" side
                same = all(dr.counts(a, n) == dr.counts(b, n) for n in range(5))
                if not same and (hash((a, b)) % 11):
                    continue
                for v in variants if not pa.startswith("rx") else ("plain+exhausted", "eqpath+exhausted"):
                    res.append((RCfg.of(a, pa, "RuleDB"), RCfg.of(b, pb, "RuleDB"), v))
                    if pa.startswith("rx"):
                        res.append((RCfg.of(b, pb, "RuleDB"), RCfg.of(a, pa, "RuleDB"), v))
    # languages with 3 DFA states: ordered pairs with equal counting sequences up to size 6
    # (75 064 pairs).  The smallest family found in which the second search has to give a
    # candidate up again after parts of it succeeded (backtracking with cleaning sets).
    from collections import defaultdict

    groups = defaultdict(list)
    for d in dr.languages(3):
        groups[tuple(dr.counts(d, n) for n in range(7))].append(d)
    pairs3 = [(a, b) for v in groups.values() for a in v for b in v]
    if tier == "quick":
        for a, b in pairs3[::12]:
            res.append((RCfg.of(a, "rxebR", "RuleDB"), RCfg.of(b, "r", "RuleDB"), "plain+exhausted"))
    else:
        for a, b in pairs3:
            for pa, pb in (("r", "r"), ("rxebR", "r")):
                res.append((RCfg.of(a, pa, "RuleDB"), RCfg.of(b, pb, "RuleDB"), "plain+exhausted"))
            res.append((RCfg.of(a, "rxebR", "RuleDB"), RCfg.of(b, "r", "RuleDB"), "eqpath+exhausted"))
    return res


def configs(tier: str) -> List[Tuple[Cfg, Cfg, str]]:
    classes = dw.start_classes("quick")
    packs = ["base", "sym", "inf1", "two"] if tier == "quick" else ["base", "sym", "inf1", "inf2", "norm+sym", "two", "sfac", "oneway+inf1"]
    stats_list = [()] if tier == "quick" else [(), ("a",)]
    res = []
    for pk in packs:
        for st in stats_list:
            for a in classes:
                for b in classes:
                    for variant in ("plain", "eqpath") + (("plain+exhausted", "eqpath+exhausted") if pk in ("two", "sfac") else ()):
                        res.append((Cfg.of(a.with_(stats=st), pk, "RuleDB"), Cfg.of(b.with_(stats=st), pk, "RuleDB"), variant))
    return res + r_configs(tier)


def _worker(arg) -> Acc:
    items = arg
    acc = Acc()
    for aj, bj, variant in items:
        run_pair(acc, Cfg.from_json(aj), Cfg.from_json(bj), variant)
    if items:
        aj, bj, variant = items[0]
        if hash(Cfg.from_json(aj).sid()) % 5 == 0:
            acc.sample({"first": Cfg.from_json(aj).sid(), "second": Cfg.from_json(bj).sid(), "finder": variant})
    env.clear_library_caches()
    dw._BF_CACHE.clear()
    return acc


def run(ctx: Ctx) -> None:
    from mc import domain_r as dr

    dr.self_test()
    cfgs = configs(ctx.tier)
    ctx.rule = (
        "all ordered pairs of the quick start classes x packs x both finder variants (ParallelSpecFinder, "
        "EqPathParallelSpecFinder), both searchers fresh for every call; plus ordered pairs of the regular languages with <= 2 states "
        "(R-domain: first-letter and last-letter decompositions, alternative rules, shared classes; restricted strategy variants) and of the "
        "languages with 3 states that have equal counts up to size 6 (quick: every 12th pair), both universes fully expanded first; plus all ordered pairs of a family of finite table universes "
        "(T-domain: classes equivalent to an atom that also decompose, shared between two parents) with equal counting polynomials and every 7th other pair; non-trivial = distinct (first, second, finder) for "
        "which a pair of specifications was returned and validated"
    )
    ctx.assumptions = ["C01/C02/C12 oracles on the returned pair", "sizes <= %d" % N]
    ctx.bounds = {"find_calls": len(cfgs)}
    chunk = 40
    items = [(a.to_json(), b.to_json(), v) for a, b, v in cfgs]
    ctx.pmap(_worker, [items[i : i + chunk] for i in range(0, len(items), chunk)])
    # T-domain: finite table universes with classes equivalent to an atom and decomposable at once
    from mc import domain_t as dt

    nt = len(dt.tables(ctx.tier)) ** 2
    ctx.bounds["table_universes"] = len(dt.tables(ctx.tier))
    step = max(1, nt // 64)
    ctx.pmap(_worker_t, [(ctx.tier, lo, min(lo + step, nt)) for lo in range(0, nt, step)])


def replay(acc: Acc, payload: dict) -> None:
    if payload.get("domain") == "T":
        from mc import domain_t as dt

        run_pair_t(acc, payload["a"][0], dt.table_from_json(payload["a"][1]), payload["b"][0], dt.table_from_json(payload["b"][1]), payload["variant"])
        return
    run_pair(acc, Cfg.from_json(payload["a"]), Cfg.from_json(payload["b"]), payload["variant"])
