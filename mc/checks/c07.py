"""C07 — object generation yields exactly the objects of the class, each once;
object maps of every rule form are mutually inverse.

E3: (a) every specification of the corpus (W and G searches under every rule
database), every size <= N, every parameter tuple: generated objects == plain
enumeration, no repetition, number == the specification's own count;
(b) every rule form of the C09 enumeration that implements object maps (plain,
equivalence, reverse-of-equivalence, equivalence paths incl. paths through a
reverse rule), every object of the parent and every tuple of child objects.
"""

from __future__ import annotations

from itertools import product
from typing import Any, Dict, List, Optional, Tuple

from comb_spec_searcher import CartesianProductStrategy

from mc import domain_g as dg
from mc import domain_w as dw
from mc import env
from mc import forms
from mc.core import Acc, Ctx, HarnessError, deadline
from mc.checks import c09, c09g
from mc.checks.common_search import lattice
from mc.search import Cfg, call_site, execute
from mc.specs import domain_fns, spec_signature

LEVEL = "exploration"
N_QUICK, N_THOROUGH = 6, 7
OBJECT_BUDGET = 1500


def brute_objects(c, n: int) -> List[Any]:
    if isinstance(c, dg.G):
        return list(dg.trees(c.grammar, c.sym(), n))
    from mc import domain_r as dr

    if isinstance(c, dr.R):
        return [dw.Word(w) for w in dr.brute_objects(c, n)]
    return [dw.Word(w) for w in dw.brute_objects(c, n)]


def params_of(c, o) -> Tuple[int, ...]:
    if isinstance(c, dg.G):
        lv = o.leaves()
    else:
        lv = str(o)
    return tuple(sum(1 for ch in lv if ch in s) for s in c.stats)


# ---------------------------------------------------------------------------
# (a) specifications


def check_spec_objects(acc: Acc, cfg, spec, N: int, payload: dict) -> None:
    start = cfg.start()
    names = start.extra_parameters
    for n in range(N + 1):
        truth: Dict[Tuple[int, ...], List[Any]] = {}
        for o in brute_objects(start, n):
            truth.setdefault(params_of(start, o), []).append(o)
        try:
            with deadline(60):
                objs = spec.get_objects(n)
        except NotImplementedError:
            acc.count("specs_without_object_maps")
            return
        except Exception as e:  # noqa: BLE001
            acc.violation("exception-while-generating", call_site(e), cfg.sid(), f"get_objects({n}): {type(e).__name__}: {str(e)[:200]}", payload)
            return
        acc.count("evaluations")
        got = {k: list(v) for k, v in objs.items() if v}
        for p in set(got) | set(truth):
            g = got.get(p, [])
            t = truth.get(p, [])
            if len(set(g)) != len(g):
                acc.violation("object-repeated", "Rule._ensure_level_objects", cfg.sid(), f"size {n} parameters {p}: an object is generated more than once: {sorted(map(str, g))[:8]}", payload)
                return
            if set(g) != set(t):
                acc.violation("objects!=class", "Rule._ensure_level_objects", cfg.sid(),
                              f"size {n} parameters {p}: generated {sorted(map(str, g))[:8]}, the class has {sorted(map(str, t))[:8]}", payload)
                return
            via_gen = list(spec.generate_objects_of_size(n, **dict(zip(names, p))))
            if sorted(map(str, via_gen)) != sorted(map(str, g)):
                acc.violation("generate!=get_objects", "CombinatorialSpecification.generate_objects_of_size", cfg.sid(), f"size {n} parameters {p}", payload)
                return
            if len(names) > 1:
                # keyword arguments are named: their order must not matter
                rev = dict(reversed(list(zip(names, p))))
                via_rev = list(spec.generate_objects_of_size(n, **rev))
                if sorted(map(str, via_rev)) != sorted(map(str, g)) or spec.count_objects_of_size(n, **rev) != len(g):
                    acc.violation("keyword-order-matters", "AbstractRule.generate_objects_of_size", cfg.sid(),
                                  f"size {n}: parameters {rev} passed in another order give {len(via_rev)} objects / count {spec.count_objects_of_size(n, **rev)}, expected {len(g)}", payload)
                    return
            c = spec.count_objects_of_size(n, **dict(zip(names, p)))
            if c != len(g):
                acc.violation("count!=objects", "CombinatorialSpecification.count_objects_of_size", cfg.sid(),
                              f"size {n} parameters {p}: {len(g)} objects generated, the specification counts {c}", payload)
                return


def check_spec_objects_children_first(acc: Acc, cfg, spec, N: int, payload: dict) -> None:
    """Another order of asking: size by size, every class of the specification is asked for its
    objects before the classes whose rules use it (children first), also for a parameter value
    (or size) at which it has no object; every class -- not only the root -- is compared with
    the plain enumeration of that class."""
    classes = list(spec.rules_dict)
    for n in range(N + 1):
        for c in reversed(classes):
            rule = spec.rules_dict[c]
            names = c.extra_parameters
            try:
                with deadline(60):
                    absent = list(rule.generate_objects_of_size(n, **{k: n + 1 for k in names}))
                    objs = rule.get_objects(n)
            except NotImplementedError:
                acc.count("specs_without_object_maps")
                return
            except Exception as e:  # noqa: BLE001
                acc.violation("exception-while-generating", call_site(e), cfg.sid(), f"children first: objects of {c.sid()} at size {n}: {type(e).__name__}: {str(e)[:200]}", payload)
                return
            acc.count("evaluations")
            truth: Dict[Tuple[int, ...], List[Any]] = {}
            try:
                for o in brute_objects(c, n):
                    truth.setdefault(params_of(c, o), []).append(o)
            except Exception:  # noqa: BLE001
                continue  # a class outside the plain enumerator (none in the shipped domains)
            if names and absent:
                acc.violation("objects!=class", "Rule._ensure_level_objects", cfg.sid(), f"children first: {c.sid()} size {n}: objects for parameter values no object has: {sorted(map(str, absent))[:6]}", payload)
                return
            got = {k: list(v) for k, v in objs.items() if v}
            for p in set(got) | set(truth):
                g, t = got.get(p, []), truth.get(p, [])
                if len(set(g)) != len(g) or set(g) != set(t):
                    acc.violation("objects!=class", "Rule._ensure_level_objects", cfg.sid(),
                                  f"asked children first: class {c.sid()} size {n} parameters {p}: generated {sorted(map(str, g))[:8]}, the class has {sorted(map(str, t))[:8]}", payload)
                    return


def _worker_specs(arg) -> Acc:
    cfgj, tier = arg
    cfg = Cfg.from_json(cfgj)
    acc = Acc()
    N = N_QUICK if tier == "quick" else N_THOROUGH
    seen = set()
    for sd in (0, 1):
        ex = execute(cfg, (), slice_default=sd, horizon=60 if tier == "quick" else 150)
        acc.count("traces")
        if ex.outcome != "spec":
            continue
        sig = spec_signature(ex.spec)
        if sig in seen:
            continue
        seen.add(sig)
        acc.nt((cfg.sid(), sig))
        payload = {"kind": "spec", "cfg": cfg.to_json(), "slice_default": sd, "horizon": 60 if tier == "quick" else 150}
        check_spec_objects(acc, cfg, ex.spec, N, payload)
        # the same specification, fresh (no cache filled), asked in the other order
        ex2 = execute(cfg, (), slice_default=sd, horizon=60 if tier == "quick" else 150)
        if ex2.outcome == "spec" and spec_signature(ex2.spec) == sig:
            check_spec_objects_children_first(acc, cfg, ex2.spec, N, dict(payload, children_first=True))
        acc.outcome((cfg.sid(), sig))
    if hash(cfg.sid()) % 211 == 2:
        acc.sample({"specification_of": cfg.sid(), "sizes": N})
    env.clear_library_caches()
    dw._BF_CACHE.clear()
    dg._TREES.clear()
    return acc


# ---------------------------------------------------------------------------
# (b) rule forms


def check_form_maps(acc: Acc, base, desc: Tuple, form, N: int, payload: dict) -> None:
    fid = forms.form_id(desc)
    kind = "+".join(str(d) for d in desc if not isinstance(d, int))
    if isinstance(form, Exception):
        return
    parent = form.comb_class
    children = form.children
    # ambiguous grammars have very many parse trees: the size bound is lowered (never the
    # set of objects below it) until the parent has at most OBJECT_BUDGET objects
    terms_of = domain_fns(parent)[0]
    total = 0
    n_eff = -1
    for n in range(N + 1):
        total += sum(terms_of(parent, n).values())
        if total > OBJECT_BUDGET and n_eff >= 1:
            break
        n_eff = n
    if n_eff < N:
        acc.count("forms_with_lowered_size_bound")
    N = n_eff
    child_sets = [set(o for n in range(N + 1) for o in brute_objects(ch, n)) for ch in children]
    where = f"{type(base.strategy).__name__}:{kind}"
    try:
        n_checked = 0
        for n in range(N + 1):
            for o in brute_objects(parent, n):
                try:
                    parts = form.forward_map(o)
                except NotImplementedError:
                    acc.count("forms_without_object_maps")
                    return
                n_checked += 1
                if len(parts) != len(children):
                    acc.violation("forward-map-arity", "Rule.forward_map", where, f"{c09.rule_desc(base)} form {fid}: {o} -> {parts}", payload)
                    return
                for i, x in enumerate(parts):
                    if x is not None and x not in child_sets[i]:
                        acc.violation("part-outside-child", "Rule.forward_map", where,
                                      f"{c09.rule_desc(base)} form {fid}: part {x} of {o} is not an object of child {children[i].sid()}", payload)
                        return
                back = list(form.backward_map(parts))
                # (a three-to-one strategy yields every preimage; the object must be among them
                # and all of them must have the same parts)
                if o not in back or len(set(back)) != len(back) or any(tuple(form.forward_map(b)) != tuple(parts) for b in back):
                    acc.violation("backward(forward)!=id", "Rule.backward_map", where,
                                  f"{c09.rule_desc(base)} form {fid}: {o} -> {parts} -> {back}", payload)
                    return
        acc.count("evaluations", n_checked)
        # the other composition, on every tuple of child objects that fits the size bound
        if len(children) == 1:
            tuples = [(x,) for x in sorted(child_sets[0], key=str)]
        elif desc == ("plain",) and isinstance(form.strategy, CartesianProductStrategy):
            tuples = [t for t in product(*[sorted(s, key=str) for s in child_sets]) if sum(x.size() for x in t) <= N]
        else:
            tuples = []
            for i, s in enumerate(child_sets):
                for x in sorted(s, key=str):
                    tuples.append(tuple(x if j == i else None for j in range(len(children))))
        for t in tuples:
            try:
                objs = list(form.backward_map(t))
            except NotImplementedError:
                return
            if len(objs) < 1:
                acc.violation("backward-map-empty", "Rule.backward_map", where, f"{c09.rule_desc(base)} form {fid}: {t} -> {objs}", payload)
                return
            if sum(x.size() for x in t if x is not None) <= N:
                for ob in objs:
                    fw = tuple(form.forward_map(ob))
                    if fw != tuple(t):
                        acc.violation("forward(backward)!=id", "Rule.forward_map", where, f"{c09.rule_desc(base)} form {fid}: {t} -> {ob} -> {fw}", payload)
                        return
        acc.nt((c09.rule_desc(base), desc))
        acc.outcome((type(base.strategy).__name__, tuple(d for d in desc if not isinstance(d, int))))
    except NotImplementedError:
        acc.count("forms_without_object_maps")
    except Exception as e:  # noqa: BLE001
        acc.violation("exception-in-map", call_site(e), where, f"{c09.rule_desc(base)} form {fid}: {type(e).__name__}: {str(e)[:200]}", payload)


def check_rule_maps(acc: Acc, base, N: int, strategies, empty, payload: dict) -> None:
    from comb_spec_searcher.strategies.rule import EquivalencePathRule

    acc.count("traces")
    for desc, form in forms.derived_forms(base, empty):
        check_form_maps(acc, base, desc, form, N, payload)
    for d0, f0 in forms.one_child_equivalences(base, empty):
        for pdesc, chain in c09.paths_from(d0, f0, strategies, 3, empty):
            try:
                path = EquivalencePathRule(chain)
            except Exception:  # noqa: BLE001
                continue
            check_form_maps(acc, base, ("path",) + pdesc, path, N, dict(payload, path=[str(x) for x in pdesc]))


def _worker_forms_w(arg) -> Acc:
    tier, lo, hi = arg
    acc = Acc()
    N = 5 if tier == "quick" else 6
    classes = forms.w_classes(tier)[lo:hi]
    strategies = forms.w_strategies(tier)
    for base in forms.base_rules(classes, strategies):
        c = base.comb_class
        check_rule_maps(acc, base, N, strategies, dw.brute_empty, {"kind": "form", "domain": "W", "class": c.to_jsonable(), "strategy": base.strategy.to_jsonable()})
    env.clear_library_caches()
    dw._BF_CACHE.clear()
    return acc


def _worker_forms_g(arg) -> Acc:
    from comb_spec_searcher.exception import StrategyDoesNotApply

    tier, family, stats_list, lo, hi = arg
    acc = Acc()
    N = 5 if tier == "quick" else 6
    strategies = dg.g_strategies()
    for g in dg.grammars(family)[lo:hi]:
        for c in c09g.g_classes(g, [tuple(s) for s in stats_list]):
            if c.is_empty():
                continue
            for s in strategies:
                try:
                    base = s(c)
                    base.children
                except StrategyDoesNotApply:
                    continue
                check_rule_maps(acc, base, N, strategies, dg.brute_empty, {"kind": "form", "domain": "G", "class": c.to_jsonable(), "strategy": s.to_jsonable()})
        dg._TREES.clear()
    env.clear_library_caches()
    return acc


# ---------------------------------------------------------------------------
# (c) a generation / counting call that is interrupted, then retried


class _Interrupt(BaseException):
    pass


class _Injector:
    """Counts the calls of the library methods through which objects / terms flow and
    raises at the k-th one (k=None: only count)."""

    def __init__(self, phase: str, k: Optional[int]):
        self.phase = phase
        self.k = k
        self.calls = 0
        self.saved: List[Tuple[Any, str, Any]] = []

    def _wrap(self, cls, name):
        orig = cls.__dict__[name]
        inj = self

        def wrapper(self_, *a, **kw):
            inj.calls += 1
            if inj.k is not None and inj.calls == inj.k:
                raise _Interrupt()
            return orig(self_, *a, **kw)

        self.saved.append((cls, name, orig))
        setattr(cls, name, wrapper)

    def __enter__(self):
        import comb_spec_searcher.strategies.rule as rl
        from comb_spec_searcher.strategies.constructor import CartesianProduct, DisjointUnion

        if self.phase == "objects":
            for cls in (rl.Rule, rl.EquivalenceRule, rl.EquivalencePathRule, rl.ReverseRule):
                if "backward_map" in cls.__dict__:
                    self._wrap(cls, "backward_map")
        else:
            for cls in (DisjointUnion, CartesianProduct):
                self._wrap(cls, "get_terms")
        return self

    def __exit__(self, *exc):
        for cls, name, orig in reversed(self.saved):
            setattr(cls, name, orig)
        return False


def check_interrupted(acc: Acc, cfg, N: int, phase: str) -> None:
    """Every interruption point k of one generation (or counting) call of size N on a
    fresh specification, followed by an undisturbed retry on the same specification."""
    start = cfg.start()

    def fresh():
        ex = execute(cfg, (), slice_default=0, horizon=60)
        return ex.spec if ex.outcome == "spec" else None

    def call(spec, n):
        return spec.get_objects(n) if phase == "objects" else spec.get_terms(n)

    spec = fresh()
    if spec is None:
        return
    try:
        with _Injector(phase, None) as inj:
            call(spec, N)
        K = inj.calls
    except NotImplementedError:
        return
    truth_objs = {n: sorted(map(str, brute_objects(start, n))) for n in range(N + 1)}
    for k in range(1, K + 1):
        spec = fresh()
        payload = {"kind": "interrupt", "cfg": cfg.to_json(), "phase": phase, "k": k, "N": N}
        interrupted = False
        try:
            with _Injector(phase, k):
                call(spec, N)
        except _Interrupt:
            interrupted = True
        acc.count("traces")
        acc.count("evaluations")
        if not interrupted:
            continue
        try:
            for n in range(N + 1):
                if phase == "objects":
                    got = sorted(str(o) for lst in spec.get_objects(n).values() for o in lst)
                    cnt = sum(spec.get_terms(n).values())
                    if got != truth_objs[n] or cnt != len(truth_objs[n]):
                        acc.violation("wrong-after-interrupted-call", "Rule._ensure_level_objects", cfg.sid(),
                                      f"generation of size {N} interrupted at its {k}-th object-map call, then retried: size {n} gives {len(got)} objects "
                                      f"({got[:6]}), the class has {len(truth_objs[n])}; the specification counts {cnt}", payload)
                        return
                else:
                    cnt = sum(spec.get_terms(n).values())
                    if cnt != len(truth_objs[n]):
                        acc.violation("wrong-after-interrupted-call", "Rule._ensure_level", cfg.sid(),
                                      f"counting of size {N} interrupted at its {k}-th constructor call, then retried: size {n} counts {cnt}, true {len(truth_objs[n])}", payload)
                        return
        except Exception as e:  # noqa: BLE001
            acc.violation("exception-after-interrupted-call", call_site(e), cfg.sid(), f"{phase} interrupted at {k}, retry raises {type(e).__name__}: {str(e)[:160]}", payload)
            return
        acc.nt((cfg.sid(), phase, k))


def interrupt_configs(tier: str) -> List[Any]:
    classes = dw.start_classes("quick")
    res = [Cfg.of(c, "base", "RuleDB") for c in classes]
    res += [Cfg.of(c.with_(stats=("a",)), "inf2", "Forest") for c in classes[::3]]
    if tier != "quick":
        res += [Cfg.of(c.with_(stats=("a", "ab")), "norm+sym", "RuleDB") for c in classes]
        res += [Cfg.of(c, "ver:a,b", "Forget") for c in classes]
    return res


def _worker_interrupt(arg) -> Acc:
    cfgj, tier = arg
    cfg = Cfg.from_json(cfgj)
    acc = Acc()
    N = 4 if tier == "quick" else 5
    for phase in ("objects", "terms"):
        check_interrupted(acc, cfg, N, phase)
    if hash(cfg.sid()) % 7 == 0:
        acc.sample({"interrupted_then_retried": cfg.sid(), "phases": ["objects", "terms"], "size": N})
    env.clear_library_caches()
    dw._BF_CACHE.clear()
    return acc


def spec_configs(tier: str) -> List[Any]:
    cfgs = lattice(tier)
    if tier == "quick":
        cfgs = [c for c in cfgs if not (getattr(c, "debug", False) or getattr(c, "smallest", False))]
    else:
        # the specification, not the search, is under test: the two main rule database families
        cfgs = [c for c in cfgs if c.db in ("RuleDB", "Forest")]
    return cfgs


def run(ctx: Ctx) -> None:
    cfgs = spec_configs(ctx.tier)
    ctx.rule = (
        "(a) every configuration of the search lattice (W and G domains, every rule database), the specifications returned under "
        "the two default slicings: every size <= N and parameter tuple compared with plain enumeration; (b) every rule form of "
        "the C09 enumeration that implements object maps: every object of the parent and every admissible tuple of child "
        "objects; (c) every interruption point of one generation / counting call on a fresh specification followed by an "
        "undisturbed retry; non-trivial = distinct (configuration, specification) pairs, (rule, form) pairs and (configuration, interruption point) pairs"
    )
    ctx.assumptions = ["plain enumeration of words / parse trees in the domain modules"]
    ctx.bounds = {"configurations": len(cfgs), "sizes_specifications": N_QUICK if ctx.quick else N_THOROUGH, "sizes_forms": 5 if ctx.quick else 6}
    tasks = []
    # long tasks first
    shards = []
    for family, stats_list in c09g.families(ctx.tier):
        total = len(dg.grammars(family))
        for lo in range(0, total, 12):
            tasks.append((_worker_forms_g, (ctx.tier, family, [list(s) for s in stats_list[:2]], lo, min(lo + 12, total))))
    classes = forms.w_classes(ctx.tier)
    step = 8
    tasks += [(_worker_forms_w, (ctx.tier, lo, min(lo + step, len(classes)))) for lo in range(0, len(classes), step)]
    icfgs = interrupt_configs(ctx.tier)
    ctx.bounds["interrupted_call_configurations"] = len(icfgs)
    tasks += [(_worker_interrupt, (c.to_json(), ctx.tier)) for c in icfgs]
    tasks += [(_worker_specs, (c.to_json(), ctx.tier)) for c in cfgs]
    ctx.pmap_tasks(tasks)


def replay(acc: Acc, payload: dict) -> None:
    if payload.get("kind") == "interrupt":
        cfg = Cfg.from_json(payload["cfg"])
        check_interrupted(acc, cfg, payload["N"], payload["phase"])
        return
    if payload.get("kind") == "spec":
        cfg = Cfg.from_json(payload["cfg"])
        ex = execute(cfg, (), slice_default=payload["slice_default"], horizon=payload["horizon"])
        if ex.outcome == "spec":
            if payload.get("children_first"):
                check_spec_objects_children_first(acc, cfg, ex.spec, N_QUICK, payload)
            else:
                check_spec_objects(acc, cfg, ex.spec, N_QUICK, payload)
        return
    from comb_spec_searcher.strategies.strategy import AbstractStrategy

    s = AbstractStrategy.from_dict(dict(payload["strategy"]))
    if payload["domain"] == "G":
        c = dg.G.from_dict(payload["class"])
        check_rule_maps(acc, s(c), 5, dg.g_strategies(), dg.brute_empty, payload)
    else:
        c = dw.W.from_dict(payload["class"])
        check_rule_maps(acc, s(c), 5, forms.w_strategies("quick"), dw.brute_empty, payload)
