"""Shared exploration of the real auto_search over the configuration lattice
(used by C01, C02, C04, C05, C11): E2 deviation-bounded schedules and the E1
search over all slicings."""

from __future__ import annotations

from typing import Any, Callable, Dict, List, Optional, Sequence, Tuple

from mc import domain_w as dw
from mc import env
from mc.core import Acc, Ctx, HarnessError
from mc.search import Cfg, DBS, Execution, Prune, canon_searcher, execute
from mc.specs import spec_signature

Checker = Callable[[Acc, Cfg, Execution, dict], None]


def _quick_w_lattice() -> List[Cfg]:
    classes = dw.start_classes("quick")
    cfgs: List[Cfg] = []
    stats_list = [(), ("a", "ab")]
    packs = ["base", "norm+sym", "inf2", "rfac", "rfac2", "ver:a,b", "sfac", "norm+atomlast", "oneway+inf1", "rfswap"]
    for c in classes:
        for st in stats_list:
            for pk in packs:
                for db in DBS:
                    cfgs.append(Cfg.of(c.with_(stats=st), pk, db))
    for c in classes:
        for kw in ({"expand_verified": True}, {"smallest": True}, {"debug": True}):
            cfgs.append(Cfg.of(c, "base", "RuleDB", **kw))
        cfgs.append(Cfg.of(c, "ver:e,a", "RuleDB", expand_verified=True))
        cfgs.append(Cfg.of(c, "base", "Forest", compressed=True))
        for db in ("RuleDB", "Forest"):
            cfgs.append(Cfg.of(c.with_(stats=("a", "ab")), "marked", db, marked=True))
            # a product whose child carries the parent's statistics under permuted names
            cfgs.append(Cfg.of(c.with_(stats=("a", "b")), "rfswap", db))
        for pk in ("base+iter", "inf1+iter"):
            for db in ("RuleDB", "Forget"):
                cfgs.append(Cfg.of(c, pk, db))
    return cfgs


CORE_PACKS = ("base", "norm+sym", "inf2", "rfac", "sfac", "two", "ver:a,b", "oneway+inf1", "rfswap", "norm+atomlast", "rfac2", "inf1")


def lattice(tier: str, what: str = "c01") -> List[Cfg]:
    """The configuration lattice (DESIGN 3.4), reduced per check but never sampled.
    thorough = the quick lattice (explored with deviation bound 2, see deviation_bound) plus an
    extended lattice (more packs, statistics, options, start classes, grammars; bound 1)."""
    cfgs: List[Cfg] = _quick_w_lattice()
    if tier != "quick":
        classes = dw.start_classes("quick")
        stats_list = [(), ("a",), ("a", "b"), ("a", "ab")]
        packs = [
            "base", "norm", "sym", "norm+sym", "inf1", "inf2", "inf2r", "norm+inf2+sym", "rfac", "sfac",
            "two", "noinit", "dropempty", "ver:a,b", "ver:e", "verfirst:a,ab", "rfac+sym", "inf1+rfac",
            "ver:a,b+sym", "ver:b+inf2", "norm+two", "sfac+inf1", "norm+atomlast", "atomlast+sym", "rfac2", "rfac2+sym", "oneway", "oneway+inf1", "onewayexp+inf1+sym", "oneway+inf2+iter", "rfswap", "norm+rfswap", "rfswap+sym",
            "rfac3", "oneway2+inf1", "flip", "norm+flip",
        ]
        for c in classes:
            for st in stats_list:
                for pk in packs:
                    # every rule database for the core packs, the two main families for the others
                    for db in DBS if pk in CORE_PACKS else ("RuleDB", "Forest"):
                        cfgs.append(Cfg.of(c.with_(stats=st), pk, db))
        for c in classes:
            for ev in (False, True):
                for sm in (False, True):
                    for dbg in (False, True):
                        if not (ev or sm or dbg):
                            continue
                        cfgs.append(Cfg.of(c, "base", "RuleDB", expand_verified=ev, smallest=sm, debug=dbg))
                        cfgs.append(Cfg.of(c.with_(stats=("a",)), "ver:a,b", "RuleDB", expand_verified=ev, smallest=sm, debug=dbg))
            cfgs.append(Cfg.of(c.with_(stats=("a", "ab")), "norm+sym", "RuleDB", compressed=True))
            for db in DBS:
                cfgs.append(Cfg.of(c, "marked", db, marked=True))
                cfgs.append(Cfg.of(c.with_(stats=("a", "ab")), "marked+norm", db, marked=True))
                cfgs.append(Cfg.of(c.with_(stats=("a", "b")), "norm+rfswap+sym", db))
            for pk in ("norm+iter", "sym+iter", "rfac+iter"):
                for db in ("RuleDB", "Forget"):
                    cfgs.append(Cfg.of(c, pk, db))
        extra = [c for c in dw.start_classes("thorough") if c not in classes]
        for c in extra:
            for st in [(), ("a", "ab")]:
                for pk in ("base", "norm+sym", "inf2", "rfac"):
                    for db in ("RuleDB", "Forest"):
                        cfgs.append(Cfg.of(c.with_(stats=st), pk, db))
        seen = set()
        uniq = []
        for c in cfgs:
            if c not in seen:
                seen.add(c)
                uniq.append(c)
        cfgs = uniq
    cfgs.extend(g_lattice(tier))
    return cfgs


_QUICK_SIDS: Optional[set] = None
BOUND2_MAX_POINTS = 40


def deviation_bound(cfg, tier: str) -> int:
    """quick: 1 everywhere.  thorough: 2 on the configurations of the quick lattice, 1 on the
    configurations that only the extended lattice has."""
    global _QUICK_SIDS
    if tier == "quick":
        return 1
    if _QUICK_SIDS is None:
        _QUICK_SIDS = {c.sid() for c in lattice("quick")}
    return 2 if cfg.sid() in _QUICK_SIDS else 1


def g_lattice(tier: str) -> List[Any]:
    """Search configurations over the G-domain."""
    from mc import domain_g as dg
    from mc.search import GCfg

    res: List[Any] = []
    # universes in which a class is only available through a reverse (quotient) rule, and
    # their circular variants in which nothing exists
    for g, pk, _genuine in dg.reverse_universes():
        for db in ("Forest", "ForestNR", "RuleDB"):
            res.append(GCfg(g, (), pk, db))
    # a verified class with a pack on offer that needs a reverse rule to be expanded
    for g, pk in dg.expand_universes():
        for db in ("Forest", "RuleDB"):
            res.append(GCfg(g, (), pk, db))
    for g in dg.grammars("one"):
        for db in ("RuleDB", "Forest"):
            res.append(GCfg(g, (), "g", db))
        # no verification strategy: no genuine specification exists, whatever is claimed is wrong
        res.append(GCfg(g, (), "g+nover", "Forest"))
    if tier != "quick":
        for g in dg.grammars("one"):
            for st in (("a",), ("a", "ab")):
                for db in ("RuleDB", "Forest"):
                    res.append(GCfg(g, st, "g", db))
            for db in ("Forget", "ForestNR"):
                res.append(GCfg(g, (), "g", db))
            res.append(GCfg(g, (), "g+split", "RuleDB"))
            res.append(GCfg(g, (), "g", "RuleDB", smallest=True))
            res.append(GCfg(g, (), "g+iter", "RuleDB"))
            res.append(GCfg(g, (), "g+nover", "RuleDB"))
        for i, g in enumerate(dg.grammars("two")):
            res.append(GCfg(g, (), "g", "Forest"))
            res.append(GCfg(g, (), "g", "RuleDB" if i % 2 else "ForestNR"))
            if i % 4 == 0:
                res.append(GCfg(g, ("a",), "g", "Forest"))
    return res


def budgets_for(tier: str, cfg=None) -> Dict[str, int]:
    d = (1 if tier == "quick" else 2) if cfg is None else deviation_bound(cfg, tier)
    return {"slice": d, "tree_choice": d, "shuffle": d, "rounds": d, "choice": 0, "randint": 0}


class ConfigExplorer:
    def __init__(self, acc: Acc, cfg: Cfg, tier: str, checkers: Sequence[Checker], on_searcher=None, db_hook=None, bound: Optional[int] = None,
                 bound2_max_points: int = 0, horizon: int = 0, light_bound1: bool = False):
        self.bound = bound  # deviation bound; default: deviation_bound(cfg, tier)
        self.bound2_max_points = bound2_max_points or BOUND2_MAX_POINTS
        self.light_bound1 = light_bound1  # bound-1 configurations: second default slicing with default answers only
        self.acc = acc
        self.cfg = cfg
        self.tier = tier
        self.checkers = list(checkers)
        self.on_searcher = on_searcher
        self.db_hook = db_hook
        self.horizon = horizon or (60 if tier == "quick" else 150)
        self.seen_specs: Dict[str, bool] = {}
        self.outcomes: Dict[str, int] = {}

    def _handle(self, ex: Execution, payload: dict) -> None:
        acc = self.acc
        acc.count("traces")
        acc.count("transitions", ex.clock.packets if ex.clock else 0)
        self.outcomes[ex.outcome] = self.outcomes.get(ex.outcome, 0) + 1
        acc.count("outcome_" + ex.outcome)
        if ex.outcome == "pruned":
            return
        if ex.outcome == "spec":
            sig = spec_signature(ex.spec)
            acc.outcome(("spec", self.cfg.sid(), sig))
            if sig in self.seen_specs:
                acc.count("spec_seen_again")
                ex.spec_new = False
            else:
                self.seen_specs[sig] = True
                ex.spec_new = True
                acc.count("evaluations")
                acc.nt(("spec", self.cfg.sid(), sig))
        else:
            acc.outcome((ex.outcome, self.cfg.sid()))
        for ch in self.checkers:
            ch(acc, self.cfg, ex, payload)

    def run_one(self, prefix, slice_default: int, hook=None, slice_script=None) -> Execution:
        payload = {
            "cfg": self.cfg.to_json(),
            "prefix": list(prefix),
            "slice_default": slice_default,
            "horizon": self.horizon,
            "slice_script": list(slice_script) if slice_script is not None else None,
        }
        ex = execute(
            self.cfg,
            prefix,
            slice_default=slice_default,
            horizon=self.horizon,
            on_searcher=self.on_searcher,
            slice_script=slice_script,
            db_hook=self.db_hook,
        )
        payload["prefix"] = ex.dec.choices()
        self._handle(ex, payload)
        return ex

    def explore_e2(self) -> None:
        total = self.bound if self.bound is not None else deviation_bound(self.cfg, self.tier)
        budgets = {k: (total if v else 0) for k, v in budgets_for(self.tier, self.cfg).items()}
        if total >= 2:
            # bound 2 is quadratic in the number of decision points: it is used where the default
            # execution has at most BOUND2_MAX_POINTS of them, bound 1 elsewhere (counted)
            probe = execute(self.cfg, [], slice_default=1, horizon=self.horizon, db_hook=self.db_hook, on_searcher=self.on_searcher)
            if len(probe.dec.trace) > self.bound2_max_points:
                total = 1
                budgets = {k: min(v, 1) for k, v in budgets.items()}
                self.acc.count("bound2_configurations_run_with_bound1")
            else:
                self.acc.count("bound2_configurations")
        for sd in (0, 1):
            if sd == 1 and (self.tier == "quick" or (self.light_bound1 and total <= 1)):
                # quick: the "check after every packet" slicing only with default answers
                self.run_one([], 1)
                continue
            n, capped = env.explore_decisions(
                lambda prefix: self.run_one(prefix, sd).dec, budgets, total=total, cap=4000
            )
            if capped:
                self.acc.cap(f"E2 executions capped at 4000 for {self.cfg.sid()}")

    def explore_all_slicings(self, cap: int = 3000) -> None:
        """E1: explicit-state search over the states of the searcher at the slice
        decision points; a state already expanded is not expanded again (identical
        complete state ⇒ identical futures)."""
        seen = set()
        stack: List[List[int]] = [[]]
        execs = 0
        while stack:
            prefix = stack.pop()
            if execs >= cap:
                self.acc.cap(f"E1 slicings capped at {cap} executions for {self.cfg.sid()}")
                return
            execs += 1
            holder: Dict[str, Any] = {}

            class Dec(env.Decisions):
                def pick(d, k, kind):  # noqa: N805
                    if kind == "slice" and len(d.trace) >= len(d.prefix):
                        h = hash(canon_searcher(holder["s"]))
                        if h in seen:
                            raise Prune()
                        seen.add(h)
                        self.acc.count("states")
                    return env.Decisions.pick(d, k, kind)

            dec = Dec(prefix)

            def on_s(s):
                holder["s"] = s
                if self.on_searcher:
                    self.on_searcher(s)

            payload = {"cfg": self.cfg.to_json(), "prefix": list(prefix), "slice_default": 0, "horizon": self.horizon, "slice_script": None}
            ex = execute(self.cfg, prefix, slice_default=0, horizon=self.horizon, on_searcher=on_s, dec=dec, db_hook=self.db_hook)
            payload["prefix"] = dec.choices()
            self._handle(ex, payload)
            trace = dec.trace
            for i in range(len(prefix), len(trace)):
                c, k, kind = trace[i]
                if kind == "slice":
                    stack.append([x for x, _, _ in trace[:i]] + [1])


def replay_execution(payload: dict, on_searcher=None, db_hook=None) -> Tuple[Cfg, Execution]:
    cfg = Cfg.from_json(payload["cfg"])
    ex = execute(
        cfg,
        payload["prefix"],
        slice_default=payload.get("slice_default", 0),
        horizon=payload.get("horizon", 60),
        on_searcher=on_searcher,
        slice_script=payload.get("slice_script"),
        db_hook=db_hook,
    )
    if ex.dec.choices()[: len(payload["prefix"])] != list(payload["prefix"])[: len(ex.dec.choices())]:
        raise HarnessError("replay diverged from the recorded decisions")
    return cfg, ex


def undocumented_exception(acc: Acc, cfg: Cfg, ex: Execution, payload: dict, pid_clause: str = "exception") -> None:
    if ex.outcome == "exception":
        acc.violation(
            pid_clause,
            ex.site,
            cfg.sid(),
            f"{type(ex.exc).__name__}: {str(ex.exc)[:300]} (decisions {payload['prefix']}, slice_default {payload['slice_default']})",
            dict(payload, kind="execution"),
        )
