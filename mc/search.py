"""Search-level driver: configurations, one controlled execution of the real
auto_search, canonical searcher state, call-site attribution."""

from __future__ import annotations

import json
import traceback
from dataclasses import dataclass, field, asdict
from typing import Any, Callable, Dict, List, Optional, Sequence, Tuple

from mc import env
from mc.core import HarnessError, Timeout, deadline
from mc import domain_w as dw

DOCUMENTED = ("SpecificationNotFound", "ExceededMaxtimeError", "NoMoreClassesToExpandError")


def make_db(kind: str):
    from comb_spec_searcher.rule_db import RuleDB, RuleDBForest, RuleDBForgetStrategy

    if kind == "RuleDB":
        return RuleDB()
    if kind == "Forget":
        return RuleDBForgetStrategy()
    if kind == "Forest":
        return RuleDBForest()
    if kind == "ForestNR":
        return RuleDBForest(reverse=False)
    raise ValueError(kind)


DBS = ("RuleDB", "Forget", "Forest", "ForestNR")


@dataclass(frozen=True)
class Cfg:
    prefix: str
    patterns: Tuple[str, ...]
    alphabet: str
    stats: Tuple[str, ...]
    pack: str
    db: str
    expand_verified: bool = False
    debug: bool = False
    smallest: bool = False
    compressed: bool = False
    marked: bool = False

    def start(self):
        cls = dw.WB if self.compressed else dw.W
        return cls(self.prefix, self.patterns, self.alphabet, False, self.stats, self.marked)

    def make_pack(self):
        return dw.make_pack(self.pack)

    def brute_terms(self, n: int):
        return dw.brute_terms(self.start(), n)

    def sid(self) -> str:
        opts = "".join(
            f
            for f, on in (("V", self.expand_verified), ("D", self.debug), ("S", self.smallest), ("Z", self.compressed), ("M", self.marked))
            if on
        )
        return f"{self.start().sid()}//{self.pack}//{self.db}" + (f"//{opts}" if opts else "")

    def to_json(self) -> dict:
        d = asdict(self)
        d["patterns"] = list(self.patterns)
        d["stats"] = list(self.stats)
        return d

    @staticmethod
    def from_json(d: dict):
        d = dict(d)
        if d.get("domain") == "G":
            return GCfg.from_json(d)
        if d.get("domain") == "R":
            return RCfg.from_json(d)
        d.pop("domain", None)
        d["patterns"] = tuple(d["patterns"])
        d["stats"] = tuple(d["stats"])
        return Cfg(**d)

    @staticmethod
    def of(c: dw.W, pack: str, db: str, **kw) -> "Cfg":
        return Cfg(str(c.prefix), tuple(map(str, c.patterns)), "".join(c.alphabet), tuple(c.stats), pack, db, **kw)


@dataclass(frozen=True)
class GCfg:
    """A search configuration over the G-domain (start class = first nonterminal)."""

    grammar: Tuple
    stats: Tuple[str, ...]
    pack: str
    db: str
    expand_verified: bool = False
    debug: bool = False
    smallest: bool = False

    def start(self):
        from mc import domain_g as dg

        return dg.G(self.grammar, "N", 0, self.stats)

    def make_pack(self):
        from mc import domain_g as dg

        return dg.g_pack(self.pack)

    def brute_terms(self, n: int):
        from mc import domain_g as dg

        return dg.brute_terms(self.start(), n)

    def sid(self) -> str:
        opts = "".join(f for f, on in (("V", self.expand_verified), ("D", self.debug), ("S", self.smallest)) if on)
        return f"{self.start().sid()}//{self.pack}//{self.db}" + (f"//{opts}" if opts else "")

    def to_json(self) -> dict:
        return {
            "domain": "G",
            "grammar": [[list(a) for a in alts] for alts in self.grammar],
            "stats": list(self.stats),
            "pack": self.pack,
            "db": self.db,
            "expand_verified": self.expand_verified,
            "debug": self.debug,
            "smallest": self.smallest,
        }

    @staticmethod
    def from_json(d: dict) -> "GCfg":
        g = tuple(tuple(tuple(a) for a in alts) for alts in d["grammar"])
        return GCfg(g, tuple(d["stats"]), d["pack"], d["db"], d.get("expand_verified", False), d.get("debug", False), d.get("smallest", False))


@dataclass(frozen=True)
class RCfg:
    """A search configuration over the R-domain (start class = a regular language)."""

    rows: Tuple
    acc: Tuple
    pack: str
    db: str
    expand_verified: bool = False
    debug: bool = False
    smallest: bool = False
    stats: Tuple[str, ...] = ()

    def start(self):
        from mc import domain_r as dr

        return dr.R((self.rows, self.acc))

    def make_pack(self):
        from mc import domain_r as dr

        return dr.r_pack(self.pack)

    def brute_terms(self, n: int):
        from mc import domain_r as dr

        return dr.brute_terms(self.start(), n)

    def sid(self) -> str:
        return f"{self.start().sid()}//{self.pack}//{self.db}"

    def to_json(self) -> dict:
        return {"domain": "R", "rows": [list(r) for r in self.rows], "acc": [int(a) for a in self.acc], "pack": self.pack, "db": self.db}

    @staticmethod
    def from_json(d: dict) -> "RCfg":
        return RCfg(tuple(tuple(r) for r in d["rows"]), tuple(bool(a) for a in d["acc"]), d["pack"], d["db"])

    @staticmethod
    def of(dfa, pack: str, db: str) -> "RCfg":
        return RCfg(tuple(tuple(r) for r in dfa[0]), tuple(bool(a) for a in dfa[1]), pack, db)


def build_searcher(cfg, db_hook=None):
    from comb_spec_searcher import CombinatorialSpecificationSearcher

    db = make_db(cfg.db)
    if db_hook is not None:
        db_hook(db)
    return CombinatorialSpecificationSearcher(
        cfg.start(),
        cfg.make_pack(),
        ruledb=db,
        expand_verified=cfg.expand_verified,
        debug=cfg.debug,
    )


def call_site(exc: BaseException) -> str:
    """Innermost library frame of the traceback: 'file.py:function'."""
    site = "?"
    for fs in traceback.extract_tb(exc.__traceback__):
        if "/comb_spec_searcher/" in fs.filename:
            site = fs.filename.split("/comb_spec_searcher/", 1)[1] + ":" + fs.name
    return site


class Prune(BaseException):
    """Raised by a decision hook to abandon an execution whose state was already explored."""


class Execution:
    def __init__(self) -> None:
        self.cfg: Optional[Cfg] = None
        self.searcher = None
        self.spec = None
        self.outcome = ""  # spec | notfound | horizon | maxtime | exception | pruned
        self.exc: Optional[BaseException] = None
        self.dec: Optional[env.Decisions] = None
        self.clock: Optional[env.VirtualClock] = None
        self.site = ""


def execute(
    cfg: Cfg,
    prefix: Sequence[int] = (),
    *,
    slice_default: int = 0,
    horizon: int = 60,
    interrupt_at: Optional[int] = None,
    slice_script: Optional[Sequence[int]] = None,
    on_searcher: Optional[Callable[[Any], None]] = None,
    dec: Optional[env.Decisions] = None,
    max_rounds: int = 2,
    timeout: float = 120.0,
    searcher=None,
    max_expansion_time: Optional[float] = 1.0e6,
    db_hook=None,
) -> Execution:
    """One run of the real auto_search under the virtual clock and decision source."""
    ex = Execution()
    ex.cfg = cfg
    ex.dec = dec if dec is not None else env.Decisions(prefix)
    ex.clock = env.VirtualClock(
        ex.dec,
        slice_default=slice_default,
        horizon=horizon,
        interrupt_at=interrupt_at,
        slice_script=slice_script,
        max_rounds=max_rounds,
    )
    with env.seams(clock=ex.clock, dec=ex.dec):
        try:
            with deadline(timeout):
                if searcher is None:
                    searcher = build_searcher(cfg, db_hook)
                ex.searcher = searcher
                if on_searcher is not None:
                    on_searcher(searcher)
                kwargs: Dict[str, Any] = {"max_expansion_time": max_expansion_time}
                if cfg.smallest:
                    kwargs["smallest"] = True
                ex.spec = searcher.auto_search(**kwargs)
                ex.outcome = "spec"
        except Prune:
            ex.outcome = "pruned"
        except HarnessError:
            raise
        except Timeout as e:
            ex.outcome = "exception"
            ex.exc = e
            ex.site = "timeout"
        except Exception as e:  # noqa: BLE001
            name = type(e).__name__
            ex.exc = e
            if name == "SpecificationNotFound":
                ex.outcome = "notfound"
            elif name == "ExceededMaxtimeError":
                ex.outcome = "horizon" if ex.clock.horizon_hit else "maxtime"
            else:
                ex.outcome = "exception"
                ex.site = call_site(e)
    return ex


# ---------------------------------------------------------------------------
# canonical state of a searcher (complete: classes, labels, emptiness, rules,
# equivalences, verified set, queue, bookkeeping sets)


def _class_id(classdb, key) -> str:
    c = classdb._decompress(key) if isinstance(key, bytes) else key
    return c.sid() if hasattr(c, "sid") else repr(c)


def canon_classdb(classdb) -> Tuple:
    return (
        tuple(_class_id(classdb, k) for k in classdb.comb_class_list),
        tuple(classdb.empty_list),
        tuple(sorted((_class_id(classdb, k), v) for k, v in classdb.label_dict.items())),
    )


def canon_equivdb(eq) -> Tuple:
    def root(x):
        while eq.parents[x] != x:
            x = eq.parents[x]
        return x

    blocks: Dict[int, List[int]] = {}
    for x in eq.parents:
        blocks.setdefault(root(x), []).append(x)
    partition = tuple(sorted(tuple(sorted(b)) for b in blocks.values() if len(b) > 1))
    verified = tuple(sorted(tuple(sorted(blocks[r])) for r in eq.verified_roots if r in blocks))
    vertices = tuple(sorted((k, tuple(sorted(v))) for k, v in eq.vertices.items() if v))
    oneway = tuple(
        sorted(
            (tuple(sorted(blocks.get(root(k), [k]))) if k in eq.parents else (k,), tuple(sorted(v)))
            for k, v in eq._one_way_vertices.items()
            if v
        )
    )
    return (partition, verified, vertices, oneway)


def canon_ruledb(db) -> Tuple:
    from comb_spec_searcher.rule_db.base import RuleDBBase
    from comb_spec_searcher.rule_db.forest import RuleDBForest

    if isinstance(db, RuleDBBase):
        return (
            type(db).__name__,
            tuple(sorted(db.rule_to_strategy)),
            tuple(sorted(db.eqv_rule_to_strategy)),
            canon_equivdb(db.equivdb),
        )
    if isinstance(db, RuleDBForest):
        tm = db.table_method
        return (
            type(db).__name__,
            db.reverse,
            tuple((fk.parent, fk.children, fk.shifts, fk.bucket.name) for fk in tm._rules),
            tuple(sorted(tm.function.items(), key=repr)),
            tuple(sorted(db._already_empty)),
        )
    raise HarnessError(f"unknown rule db {type(db)}")


def canon_queue(q) -> Tuple:
    d = dict(vars(q))
    out = []
    for k in sorted(d):
        v = d[k]
        if k in ("inferral_strategies", "initial_strategies", "expansion_strats"):
            continue
        if k == "next_level":
            out.append((k, tuple(sorted(v.items()))))
        elif k == "curr_level":
            out.append((k, tuple(tuple(x) for x in v)))
        elif k == "staging":
            out.append((k, tuple((wp.label, tuple(map(repr, wp.strategies)), wp.inferral) for wp in v)))
        elif isinstance(v, (set, frozenset)):
            out.append((k, tuple(sorted(v))))
        elif isinstance(v, (list, tuple)) or hasattr(v, "popleft"):
            out.append((k, tuple(v)))
        else:
            out.append((k, repr(v)))
    return tuple(out)


def canon_searcher(s, with_queue: bool = True) -> Tuple:
    return (
        canon_classdb(s.classdb),
        canon_ruledb(s.ruledb),
        canon_queue(s.classqueue) if with_queue else (),
        tuple(sorted(s.tried_to_verify)),
        tuple(sorted(s.symmetry_expanded)),
        tuple(sorted(s.inferral_expanded)),
        s.start_label,
    )


def verified_labels(s) -> Tuple[int, ...]:
    n = len(s.classdb.comb_class_list)
    return tuple(l for l in range(n) if s.ruledb.is_verified(l))
