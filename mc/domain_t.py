"""T-domain: finite universes given by a table of rules (used by C13).

A class is (table, name).  The table lists, per name, at most one union rule and at most
one product rule (so a class may have *alternative* rules), and the atoms with their
sizes.  A union with one child is an equivalence: a class can be *equivalent to an atom
and decomposable at once* -- a situation none of the word / parse-tree / regular-language
domains has, and which the second search of the parallel finder treats specially (an
atom on one side facing a class with a decomposition rule on the other).

Tables are acyclic, so every class is finite and its counting polynomial is computed here
by plain recursion over the table (independent of the library).  A table is *consistent*
when alternative rules of one class give the same polynomial; only consistent tables are
used.
"""

from __future__ import annotations

from collections import Counter
from functools import lru_cache
from itertools import product
from typing import Dict, Iterator, List, Optional, Tuple

from comb_spec_searcher import (
    AtomStrategy,
    CartesianProductStrategy,
    CombinatorialClass,
    CombinatorialObject,
    DisjointUnionStrategy,
    StrategyPack,
)

# table = (rules, atoms); rules = ((name, kind, children), ...) kind in "UP"; atoms = ((name, size), ...)
Table = Tuple[Tuple[Tuple[str, str, Tuple[str, ...]], ...], Tuple[Tuple[str, int], ...]]


class TObj(str, CombinatorialObject):
    def size(self) -> int:
        return len(self)


def _rules(table: Table, name: str) -> Dict[str, Tuple[str, ...]]:
    return {k: ch for (n, k, ch) in table[0] if n == name}


def _atoms(table: Table) -> Dict[str, int]:
    return dict(table[1])


@lru_cache(maxsize=None)
def poly(table: Table, name: str) -> Optional[Tuple[Tuple[int, int], ...]]:
    """Counting polynomial {size: count} of the class, as a sorted tuple; None when
    alternative rules of some class below disagree."""
    atoms = _atoms(table)
    if name in atoms:
        return ((atoms[name], 1),)
    results = []
    for kind, children in sorted(_rules(table, name).items()):
        subs = [poly(table, c) for c in children]
        if any(s is None for s in subs):
            return None
        if kind == "U":
            acc: Counter = Counter()
            for s in subs:
                for sz, ct in s:
                    acc[sz] += ct
        else:
            acc = Counter({0: 1})
            for s in subs:
                nxt: Counter = Counter()
                for a, x in acc.items():
                    for sz, ct in s:
                        nxt[a + sz] += x * ct
                acc = nxt
        results.append(tuple(sorted(acc.items())))
    if not results or any(r != results[0] for r in results):
        return None
    return results[0]


def count(table: Table, name: str, n: int) -> int:
    p = poly(table, name)
    assert p is not None
    return dict(p).get(n, 0)


class T(CombinatorialClass[TObj]):
    def __init__(self, table: Table, name: str):
        self.table = table
        self.name = name
        super().__init__()

    def is_empty(self) -> bool:
        return False

    def is_atom(self) -> bool:
        return self.name in _atoms(self.table)

    def minimum_size_of_object(self) -> int:
        return poly(self.table, self.name)[0][0]

    def objects_of_size(self, n: int, **parameters) -> Iterator[TObj]:
        if self.is_atom() and n == _atoms(self.table)[self.name]:
            yield TObj("x" * n)

    def to_jsonable(self) -> dict:
        d = super().to_jsonable()
        d["table"] = [[[n, k, list(ch)] for n, k, ch in self.table[0]], [list(a) for a in self.table[1]]]
        d["name"] = self.name
        return d

    @classmethod
    def from_dict(cls, d: dict) -> "T":
        return cls(table_from_json(d["table"]), d["name"])

    def __eq__(self, other) -> bool:
        return isinstance(other, T) and self.name == other.name and self.table == other.table

    def __hash__(self) -> int:
        return hash((self.name, self.table))

    def __repr__(self) -> str:
        return f"T({self.name!r})"

    def __str__(self) -> str:
        return self.name

    def sid(self) -> str:
        return self.name


def table_from_json(j) -> Table:
    return (tuple((n, k, tuple(ch)) for n, k, ch in j[0]), tuple((a, int(s)) for a, s in j[1]))


class TUnion(DisjointUnionStrategy[T, TObj]):
    def decomposition_function(self, c: T):
        ch = _rules(c.table, c.name).get("U")
        return None if ch is None else tuple(T(c.table, x) for x in ch)

    def formal_step(self) -> str:
        return "union of the table"

    def forward_map(self, comb_class, obj, children=None):
        raise NotImplementedError

    @classmethod
    def from_dict(cls, d):
        return cls()

    def __str__(self):
        return "table union"

    def __repr__(self):
        return "TUnion()"


class TProduct(CartesianProductStrategy[T, TObj]):
    def decomposition_function(self, c: T):
        ch = _rules(c.table, c.name).get("P")
        return None if ch is None else tuple(T(c.table, x) for x in ch)

    def formal_step(self) -> str:
        return "product of the table"

    def forward_map(self, comb_class, obj, children=None):
        raise NotImplementedError

    def backward_map(self, comb_class, objs, children=None):
        raise NotImplementedError

    @classmethod
    def from_dict(cls, d):
        return cls()

    def __str__(self):
        return "table product"

    def __repr__(self):
        return "TProduct()"


def t_pack() -> StrategyPack:
    return StrategyPack(initial_strats=[], inferral_strats=[], expansion_strats=[[TUnion(), TProduct()]], ver_strats=[AtomStrategy()], name="table")


# ---------------------------------------------------------------------------
# the family of tables
#
#   R = X ∪ Y,   X = a × S1 [× a'],   Y = b × b' × S2   (the arities tell X and Y apart, or not)
#   S ranges over the *shapes*
#     A1, A2 : an atom of size 1 / 2
#     P2     : c × d, two atoms of size 1 (not known to be an atom)
#     E1, E2 : a class whose only rule is a one-child union with an atom of size 1 / 2
#     EP     : a class equivalent to an atom of size 2 that is also c × d
#     UP     : a two-child union of an atom of size 1 and c × d
#   equal shapes in one table are the same class (it then occurs twice, with two partners)

SHAPES = ("A1", "A2", "P2", "E1", "E2", "EP", "UP")


def _shape(tag: str, rules: List, atoms: Dict[str, int]) -> str:
    if tag in ("A1", "A2"):
        name = "g" + tag[1]
        atoms[name] = int(tag[1])
        return name
    name = "S" + tag
    if any(r[0] == name for r in rules):
        return name
    if tag == "P2":
        atoms.update({"c": 1, "d": 1})
        rules.append((name, "P", ("c", "d")))
    elif tag in ("E1", "E2"):
        atoms["e" + tag[1]] = int(tag[1])
        rules.append((name, "U", ("e" + tag[1],)))
    elif tag == "EP":
        atoms.update({"c": 1, "d": 1, "e2": 2})
        rules.append((name, "U", ("e2",)))
        rules.append((name, "P", ("c", "d")))
    elif tag == "UP":
        atoms.update({"c": 1, "d": 1, "f1": 1})
        rules.append(("SP2", "P", ("c", "d"))) if not any(r[0] == "SP2" for r in rules) else None
        rules.append((name, "U", ("f1", "SP2")))
    return name


def tables(tier: str) -> List[Tuple[str, Table]]:
    out: List[Tuple[str, Table]] = []
    arities = [(2, 3)] if tier == "quick" else [(2, 3), (2, 2), (3, 3)]
    for s1, s2 in product(SHAPES, repeat=2):
        for ax, ay in arities:
            for swap in (False, True):
                rules: List = []
                atoms: Dict[str, int] = {"a": 1, "b": 1}
                n1 = _shape(s1, rules, atoms)
                n2 = _shape(s2, rules, atoms)
                x = ["a"] + (["aa"] if ax == 3 else []) + [n1]
                y = ["b"] + (["bb"] if ay == 3 else []) + [n2]
                if ax == 3:
                    atoms["aa"] = 1
                if ay == 3:
                    atoms["bb"] = 1
                rules.append(("X", "P", tuple(x)))
                rules.append(("Y", "P", tuple(y)))
                rules.append(("R", "U", ("Y", "X") if swap else ("X", "Y")))
                table: Table = (tuple(sorted(rules)), tuple(sorted(atoms.items())))
                if poly(table, "R") is None:
                    continue
                out.append((f"T[{s1},{s2};{ax}{ay}{'s' if swap else ''}]", table))
    return out
