"""Owned nondeterminism: virtual clock, decision source, module seams (DESIGN 2.1).

No change to /repo is needed: every seam is a module-level name of the library
(`time`, `choice`, `shuffle`, `random`, `randint`) that is substituted here.
"""

from __future__ import annotations

import contextlib
import logging
import math
import sys
from itertools import permutations
from typing import Dict, List, Optional, Sequence, Tuple

from mc.core import HarnessError

_quiet_done = False


def quiet() -> None:
    """Silence the library's logging (it resets the level to INFO at import)."""
    global _quiet_done
    import logzero

    import comb_spec_searcher.comb_spec_searcher as css_mod  # noqa: F401 (import resets level)

    logzero.loglevel(logging.CRITICAL)
    logzero.logger.disabled = True
    logging.getLogger("logzero_default").disabled = True

    class _NoLogzero:
        @staticmethod
        def loglevel(*a, **k):
            return None

    # debug=True searchers call logzero.loglevel(DEBUG) -- keep them silent
    css_mod.logzero = _NoLogzero()
    _quiet_done = True


def clear_library_caches() -> None:
    from comb_spec_searcher.utils import TermsCache

    TermsCache.ALL_CACHES.clear()
    TermsCache.KEY_CACHE.clear()


# ---------------------------------------------------------------------------
# decisions


class Decisions:
    """Replays a prefix of choices, then answers 0; records (choice, k, kind)."""

    def __init__(self, prefix: Sequence[int] = ()) -> None:
        self.prefix = list(prefix)
        self.trace: List[Tuple[int, int, str]] = []

    def pick(self, k: int, kind: str) -> int:
        if k <= 1:
            return 0
        i = len(self.trace)
        c = self.prefix[i] if i < len(self.prefix) else 0
        if not 0 <= c < k:
            raise HarnessError(
                f"divergence while replaying: choice {c} out of range {k} at point {i} ({kind})"
            )
        self.trace.append((c, k, kind))
        return c

    def choices(self) -> List[int]:
        return [c for c, _, _ in self.trace]


def explore_decisions(run, budgets: Dict[str, int], total: Optional[int] = None, cap: Optional[int] = None):
    """Stateless deviation-bounded exploration (CHESS-style, DESIGN E2).

    run(prefix) -> Decisions (with .trace filled) ; yields nothing, run must do
    the checking itself.  Every point after the prefix is branched on, as long
    as the number of non-default answers per kind stays within budgets[kind]
    (kinds absent from budgets get no deviation) and the total within `total`.
    Returns (executions, capped)."""
    stack: List[List[int]] = [[]]
    executions = 0
    while stack:
        prefix = stack.pop()
        if cap is not None and executions >= cap:
            return executions, True
        dec = run(prefix)
        executions += 1
        trace = dec.trace
        if len(trace) < len(prefix):
            raise HarnessError(
                f"divergence while replaying: run consumed {len(trace)} of {len(prefix)} decisions"
            )
        used: Dict[str, int] = {}
        tot = 0
        for i, (c, k, kind) in enumerate(trace):
            if i >= len(prefix):
                ok_total = total is None or tot + 1 <= total
                ok_kind = used.get(kind, 0) + 1 <= budgets.get(kind, 0)
                if ok_total and ok_kind:
                    for alt in range(k - 1, 0, -1):
                        stack.append([x for x, _, _ in trace[:i]] + [alt])
            if c != 0:
                used[kind] = used.get(kind, 0) + 1
                tot += 1
    return executions, False


# ---------------------------------------------------------------------------
# clock


class VirtualClock:
    """Frozen time that leaps only where the explorer decides.

    Decision sites are recognised by the *name of the calling function*:
      _expand_classes_for        every call after the first in a frame is the
                                 per-work-packet "slice over?" test   (kind 'slice')
      _auto_search_rules         the max_expansion_time test is driven through
                                 `interrupt_at` (packet count)        (no decision)
      smallish_random_proof_tree loop test: k more rounds             (kind 'rounds')
    Everything else only accumulates statistics and sees frozen time.
    """

    SLICE_LEAP = 1.0
    BIG = 1.0e7

    def __init__(
        self,
        dec: Optional[Decisions] = None,
        *,
        slice_default: int = 0,
        horizon: int = 10**9,
        interrupt_at: Optional[int] = None,
        max_rounds: int = 2,
        leap_at_call: Optional[int] = None,
        slice_script: Optional[Sequence[int]] = None,
        leap_big: bool = False,
    ) -> None:
        self.now = 1000.0
        self.dec = dec
        self.slice_default = slice_default
        self.horizon = horizon
        self.interrupt_at = interrupt_at
        self.max_rounds = max_rounds
        self.packets = 0  # slice decision points seen (= work packets handed out)
        self.calls = 0
        self.rounds_granted = 0
        self.leap_at_call = leap_at_call
        self.leap_big = leap_big  # the leap at call `leap_at_call` also exceeds max_expansion_time
        self.slice_script = list(slice_script) if slice_script is not None else None
        self.horizon_hit = False
        self.sites: Dict[str, int] = {}
        self.stream: List[Tuple] = []  # work packets seen at the slice decision points
        self.record_stream = False

    def time(self) -> float:
        self.calls += 1
        return self._time_for(sys._getframe(1))

    def _time_for(self, frame) -> float:
        name = frame.f_code.co_name
        self.sites[name] = self.sites.get(name, 0) + 1
        if self.leap_at_call is not None and self.calls == self.leap_at_call:
            # unreduced mode for the reduction-conformance run: time passes before this very
            # call; the site bookkeeping below (packet count, horizon) still takes place
            self.now += self.BIG if self.leap_big else self.SLICE_LEAP
        if name == "_expand_classes_for":
            if "expansion_start" in frame.f_locals:
                self.packets += 1
                if self.record_stream:
                    loc = frame.f_locals
                    self.stream.append(
                        (loc.get("label"), tuple(repr(x) for x in (loc.get("strategies") or ())), loc.get("inferral"))
                    )
                if self.interrupt_at is not None and self.packets == self.interrupt_at:
                    self.now += self.BIG  # also trips max_expansion_time
                    return self.now
                if self.packets >= self.horizon:
                    self.horizon_hit = True
                    self.now += self.BIG
                    return self.now
                if self.slice_script is not None:
                    i = self.packets - 1
                    brk = self.slice_script[i] if i < len(self.slice_script) else self.slice_default
                elif self.dec is not None:
                    c = self.dec.pick(2, "slice")
                    brk = c ^ self.slice_default
                else:
                    brk = self.slice_default
                if brk:
                    self.now += self.SLICE_LEAP
        elif name == "smallish_random_proof_tree":
            if "start_time" in frame.f_locals:
                more = 0
                if self.dec is not None and self.rounds_granted < self.max_rounds:
                    more = self.dec.pick(2, "rounds")
                if more:
                    self.rounds_granted += 1
                else:
                    self.now += self.BIG
        return self.now


# ---------------------------------------------------------------------------
# rng


class _Rng:
    """Stands in for the `random` module / its functions inside the library."""

    def __init__(self, dec: Decisions) -> None:
        self.dec = dec

    def randint(self, a: int, b: int) -> int:
        if b < a:
            raise ValueError("empty range for randint")
        return a + self.dec.pick(b - a + 1, "randint")

    def choice(self, seq):
        if not seq:
            raise IndexError("Cannot choose from an empty sequence")
        return seq[self.dec.pick(len(seq), "choice")]

    def tree_choice(self, seq):
        if not seq:
            raise IndexError("Cannot choose from an empty sequence")
        return seq[self.dec.pick(len(seq), "tree_choice")]

    def shuffle(self, x) -> None:
        """All n! orders for n <= 3; for longer lists the 2n rotations of the list
        and of its reverse (the order of a proof-tree node's children only decides
        which occurrence of a repeated label is expanded, which the returned rule
        set does not depend on -- validated exhaustively on small dictionaries by C05)."""
        n = len(x)
        if n <= 1:
            return
        if n <= 3:
            idx = self.dec.pick(math.factorial(n), "shuffle")
            if idx:
                perm = next(p for j, p in enumerate(permutations(range(n))) if j == idx)
                x[:] = [x[i] for i in perm]
            return
        idx = self.dec.pick(2 * n, "shuffle")
        if idx:
            base = list(x) if idx < n else list(reversed(x))
            r = idx % n
            x[:] = base[r:] + base[:r]


class SwitchDec:
    """A decision source whose target can be exchanged between executions, so
    that the seams are installed once per worker instead of once per execution."""

    def __init__(self) -> None:
        self.cur: Optional[Decisions] = None

    def pick(self, k: int, kind: str) -> int:
        return self.cur.pick(k, kind)


class SwitchClock:
    def __init__(self) -> None:
        self.cur: Optional[VirtualClock] = None

    def time(self) -> float:
        # called from library frames: the classification looks one frame further up
        c = self.cur
        c.calls += 1
        frame = sys._getframe(1)
        return c._time_for(frame)


_SEAM_MODULES = (
    "comb_spec_searcher.comb_spec_searcher",
    "comb_spec_searcher.utils",
    "comb_spec_searcher.class_db",
    "comb_spec_searcher.tree_searcher",
    "comb_spec_searcher.rule_db.forest",
)


@contextlib.contextmanager
def seams(clock: Optional[VirtualClock] = None, dec: Optional[Decisions] = None):
    """Install clock and RNG seams for the duration of the block."""
    import importlib

    saved = []

    def setattr_(mod, name, value):
        saved.append((mod, name, getattr(mod, name)))
        setattr(mod, name, value)

    try:
        if clock is not None:
            for mname in _SEAM_MODULES:
                mod = importlib.import_module(mname)
                setattr_(mod, "time", clock)
        if dec is not None:
            rng = _Rng(dec)
            ts = importlib.import_module("comb_spec_searcher.tree_searcher")
            setattr_(ts, "choice", rng.tree_choice)
            setattr_(ts, "shuffle", rng.shuffle)
            rl = importlib.import_module("comb_spec_searcher.strategies.rule")
            setattr_(rl, "random", rng)
            ca = importlib.import_module("comb_spec_searcher.strategies.constructor.cartesian")
            setattr_(ca, "random", rng)
            dj = importlib.import_module("comb_spec_searcher.strategies.constructor.disjoint")
            setattr_(dj, "randint", rng.randint)
        yield
    finally:
        for mod, name, value in reversed(saved):
            setattr(mod, name, value)
