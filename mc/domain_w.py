"""W-domain: words with a given prefix avoiding consecutive patterns, with statistics.

A generalisation of the repository's example.py, defined here so that nothing
depends on example.py.  Every strategy honours the documented contracts
(DESIGN 2.3); `gate_rule` checks that set-theoretically without calling any
library counting code.

A statistic is a non-empty set of letters S (written as a sorted string);
the parameter `k_S` of a word counts its letters that lie in S.
"""

from __future__ import annotations

from collections import Counter
from itertools import product
from typing import Dict, Iterable, Iterator, List, Optional, Sequence, Tuple

from comb_spec_searcher import (
    CartesianProductStrategy,
    CombinatorialClass,
    CombinatorialObject,
    DisjointUnionStrategy,
    StrategyFactory,
    StrategyPack,
    SymmetryStrategy,
    VerificationStrategy,
)
from comb_spec_searcher.exception import InvalidOperationError, StrategyDoesNotApply
from comb_spec_searcher.strategies import AtomStrategy
from comb_spec_searcher.typing import CombinatorialClassType


MARKS = "xyz"


class InterruptedComputation(Exception):
    """Raised by W.is_empty when a harness armed INTERRUPT_IS_EMPTY (models an interruption)."""


INTERRUPT_IS_EMPTY = [False]


class Word(str, CombinatorialObject):
    def size(self) -> int:
        # a mark in front of a marked word has size 0
        return str.__len__(self) - (1 if self[:1] in MARKS and self[:1] != "" else 0)


def pname(stat: str) -> str:
    return "k_" + stat


class W(CombinatorialClass[Word]):
    """Words over `alphabet` starting with `prefix` avoiding the consecutive
    `patterns`; if just_prefix, only the word `prefix` itself."""

    def __init__(
        self,
        prefix: str,
        patterns: Iterable[str],
        alphabet: Iterable[str],
        just_prefix: bool = False,
        stats: Iterable[str] = (),
        marked: bool = False,
        rev: bool = False,
    ):
        # marked: every word carries a mark x, y or z in front (size 0, no statistic);
        # only the three-to-one strategy Unmark applies to such a class
        self.marked = bool(marked)
        self.alphabet = tuple(sorted(alphabet))
        self.prefix = Word(prefix)
        self.patterns = tuple(sorted(map(Word, patterns)))
        self.just_prefix = bool(just_prefix)
        st = sorted("".join(sorted(set(s))) for s in stats)
        # rev: the statistics are *listed* in reverse order (same names, same values; terms are
        # keyed by position, so a parent and a child may list the same parameters differently)
        self.rev = bool(rev) and len(st) >= 2
        self.stats = tuple(reversed(st)) if self.rev else tuple(st)
        assert len(set(self.stats)) == len(self.stats)
        assert all(s for s in self.stats)
        self._hash = hash((self.prefix, self.patterns, self.alphabet, self.just_prefix, self.stats, self.marked))
        super().__init__()

    # identity ---------------------------------------------------------------
    def key(self):
        return (self.prefix, self.patterns, self.alphabet, self.just_prefix, self.stats, self.marked)

    def __eq__(self, other: object) -> bool:
        if not isinstance(other, W):
            return NotImplemented
        return self.key() == other.key()

    def __hash__(self) -> int:
        return self._hash

    def __repr__(self) -> str:
        return f"W({self.prefix!r}, {list(self.patterns)!r}, {''.join(self.alphabet)!r}, {self.just_prefix}, {list(self.stats)!r})"

    def __str__(self) -> str:
        p = self.prefix or "ε"
        st = f" [{','.join(self.stats)}]" if self.stats else ""
        if self.just_prefix:
            return f"{{{p}}}{st}"
        return f"{p}·Av({','.join(self.patterns)}){st}"

    def sid(self) -> str:
        s = (
            f"{self.prefix or 'e'}{'!' if self.just_prefix else ''}|{','.join(self.patterns)}"
            f"|{''.join(self.alphabet)}|{','.join(self.stats)}"
        )
        return f"M({s})" if self.marked else s

    def with_(self, **kw) -> "W":
        d = dict(
            prefix=self.prefix,
            patterns=self.patterns,
            alphabet=self.alphabet,
            just_prefix=self.just_prefix,
            stats=self.stats,
            marked=self.marked,
            rev=self.rev,
        )
        d.update(kw)
        return type(self)(**d)

    # json ---------------------------------------------------------------------
    def to_jsonable(self) -> dict:
        d = super().to_jsonable()
        d.update(
            prefix=str(self.prefix),
            patterns=[str(p) for p in self.patterns],
            alphabet=list(self.alphabet),
            just_prefix=int(self.just_prefix),
            stats=list(self.stats),
            marked=int(self.marked),
            rev=int(self.rev),
        )
        return d

    @classmethod
    def from_dict(cls, d: dict) -> "W":
        return cls(d["prefix"], d["patterns"], d["alphabet"], bool(int(d["just_prefix"])), d["stats"], bool(int(d.get("marked", 0))), bool(int(d.get("rev", 0))))

    # combinatorial exploration -------------------------------------------------
    def is_empty(self) -> bool:
        if INTERRUPT_IS_EMPTY[0]:
            # armed by a harness (C15): this one emptiness computation is interrupted
            INTERRUPT_IS_EMPTY[0] = False
            raise InterruptedComputation("is_empty interrupted")
        return any(p in self.prefix for p in self.patterns)

    def is_atom(self) -> bool:
        return self.just_prefix and not self.marked

    def minimum_size_of_object(self) -> int:
        return len(self.prefix)

    @property
    def extra_parameters(self) -> Tuple[str, ...]:
        return tuple(pname(s) for s in self.stats)

    def stat_value(self, stat: str, word: str) -> int:
        return sum(1 for ch in word if ch in stat)

    def get_parameters(self, obj: Word) -> Tuple[int, ...]:
        # marks are not letters of the alphabet, so they touch no statistic
        return tuple(self.stat_value(s, obj) for s in self.stats)

    def get_minimum_value(self, parameter: str) -> int:
        # every object extends the prefix and the prefix itself is an object
        # of every non-empty class
        stat = parameter[2:]
        assert stat in self.stats, (parameter, self)
        return self.stat_value(stat, self.prefix)

    def possible_parameters(self, n: int) -> Iterator[Dict[str, int]]:
        seen = set()
        for w in self.objects_of_size(n):
            t = self.get_parameters(w)
            if t not in seen:
                seen.add(t)
                yield dict(zip(self.extra_parameters, t))

    def objects_of_size(self, n: int, **parameters: int) -> Iterator[Word]:
        want = None
        if parameters:
            want = tuple(parameters[k] for k in self.extra_parameters)
        for w in self._words(n):
            if want is None or self.get_parameters(w) == want:
                yield w

    def _words(self, n: int) -> Iterator[Word]:
        if self.marked:
            for w in self.with_(marked=False)._words(n):
                for m in MARKS:
                    yield Word(m + w)
            return
        if self.is_empty() or n < len(self.prefix):
            return
        if self.just_prefix:
            if n == len(self.prefix):
                yield Word(self.prefix)
            return
        k = len(self.prefix)

        def rec(w: str):
            if len(w) == n:
                yield Word(w)
                return
            for a in self.alphabet:
                v = w + a
                if any(v.endswith(p) for p in self.patterns):
                    continue
                yield from rec(v)

        yield from rec(self.prefix)

    # helpers for the strategies -------------------------------------------------
    def effective_letters(self) -> str:
        """Letters that can occur in an object of the class."""
        if self.just_prefix:
            return "".join(sorted(set(self.prefix)))
        free = [a for a in self.alphabet if a not in self.patterns]
        return "".join(sorted(set(self.prefix) | set(free)))


class WK(W):
    """Stored compressed, with a compact text encoding (short classes give payloads of a few
    bytes, long repetitive prefixes give payloads that zlib shrinks a lot)."""

    def to_bytes(self) -> bytes:
        return "|".join(
            [self.prefix, ",".join(self.patterns), "".join(self.alphabet), str(int(self.just_prefix)), ",".join(self.stats), str(int(self.marked) + 2 * int(self.rev))]
        ).encode()

    @classmethod
    def from_bytes(cls, b: bytes) -> "WK":
        p, pats, al, jp, st, mk = b.decode().split("|")
        return cls(p, tuple(x for x in pats.split(",") if x), al, jp == "1", tuple(x for x in st.split(",") if x), int(mk) % 2 == 1, int(mk) >= 2)


class WB(W):
    """Same class, stored compressed by the class database."""

    def to_bytes(self) -> bytes:
        import json

        return json.dumps(
            [self.prefix, list(self.patterns), list(self.alphabet), int(self.just_prefix), list(self.stats), int(self.marked) + 2 * int(self.rev)]
        ).encode()

    @classmethod
    def from_bytes(cls, b: bytes) -> "WB":
        import json

        p, pats, al, jp, st, mk = json.loads(b.decode())
        return cls(p, pats, al, bool(jp), st, mk % 2 == 1, mk >= 2)


class WC(W):
    """Same class with a constant hash: every two classes collide (equality and hash are
    still consistent, as the contract requires)."""

    def __hash__(self) -> int:
        return 7


class WCB(WB):
    def __hash__(self) -> int:
        return 7


# ---------------------------------------------------------------------------
# statistics helpers


def restrict_stats(stats: Sequence[str], letters: str) -> Tuple[Tuple[str, ...], Dict[str, str]]:
    """Restrict each statistic to `letters`; returns (child stats, parent param -> child param)."""
    mapping: Dict[str, str] = {}
    child: List[str] = []
    for s in stats:
        r = "".join(ch for ch in s if ch in letters)
        if not r:
            continue
        mapping[pname(s)] = pname(r)
        if r not in child:
            child.append(r)
    return tuple(sorted(child)), mapping


def identity_map(stats: Sequence[str]) -> Dict[str, str]:
    return {pname(s): pname(s) for s in stats}


class _JsonMixin:
    """to_jsonable / from_dict for strategies configured by keyword settings."""

    SETTINGS: Tuple[str, ...] = ()

    def to_jsonable(self) -> dict:
        d = super().to_jsonable()  # type: ignore[misc]
        for k in self.SETTINGS:
            d[k] = getattr(self, k)
        return d

    @classmethod
    def from_dict(cls, d: dict):
        d = dict(d)
        for k in ("class_module", "strategy_class"):
            d.pop(k, None)
        return cls(**d)

    def __repr__(self) -> str:
        args = ", ".join(f"{k}={getattr(self, k)!r}" for k in self.SETTINGS)
        return f"{type(self).__name__}({args})"


# ---------------------------------------------------------------------------
# union strategies


class Expand(_JsonMixin, DisjointUnionStrategy[W, Word]):
    """prefix itself ⊔ prefix+w·… for all words w of length k (shorter
    extensions as atoms).  norm=True gives children normalised statistics
    (restricted to their effective letters, so the atom children drop / merge
    statistics); drop_empty=True filters empty children itself and then declares
    possibly_empty=False."""

    SETTINGS = ("k", "norm", "drop_empty", "atom_last", "flip")

    def __init__(self, k: int = 1, norm: bool = False, drop_empty: bool = False, atom_last: bool = False, flip: bool = False, **kw):
        self.k = k
        self.flip = bool(flip)  # children list their statistics in the other order than the parent
        self.norm = norm
        self.drop_empty = drop_empty
        self.atom_last = atom_last  # the single-word children come after the others
        kw.pop("possibly_empty", None)
        super().__init__(possibly_empty=not drop_empty, **kw)

    def to_jsonable(self) -> dict:
        d = super().to_jsonable()
        d.pop("possibly_empty")
        return d

    def _child(self, c: W, prefix: str, just: bool) -> W:
        ch = c.with_(prefix=prefix, just_prefix=just, rev=(not c.rev) if self.flip else c.rev)
        if self.norm:
            ch = ch.with_(stats=restrict_stats(c.stats, ch.effective_letters())[0])
        return ch

    def decomposition_function(self, c: W) -> Optional[Tuple[W, ...]]:
        if c.marked or c.just_prefix:
            return None
        children = []
        for length in range(self.k):
            for w in product(c.alphabet, repeat=length):
                children.append(self._child(c, c.prefix + "".join(w), True))
        atoms = list(children)
        children = []
        for w in product(c.alphabet, repeat=self.k):
            children.append(self._child(c, c.prefix + "".join(w), False))
        children = children + atoms if self.atom_last else atoms + children
        if self.drop_empty:
            children = [ch for ch in children if not ch.is_empty()]
            if not children:
                return None
        return tuple(children)

    def extra_parameters(self, c: W, children: Optional[Tuple[W, ...]] = None):
        if children is None:
            children = self.decomposition_function(c)
            if children is None:
                raise StrategyDoesNotApply("does not apply")
        if self.norm:
            return tuple(restrict_stats(c.stats, ch.effective_letters())[1] for ch in children)
        return tuple(identity_map(c.stats) for _ in children)

    def formal_step(self) -> str:
        return f"the prefix or the next {self.k} letter(s)"

    def forward_map(self, c: W, word: Word, children=None):
        if children is None:
            children = self.decomposition_function(c)
        for i, ch in enumerate(children):
            if ch.just_prefix:
                if word == ch.prefix:
                    return tuple(word if j == i else None for j in range(len(children)))
            elif word.startswith(ch.prefix):
                return tuple(word if j == i else None for j in range(len(children)))
        raise ValueError(f"{word} is not in any child of {c}")

    def backward_map(self, c: W, objs, children=None):
        """Position matters: the part must be handed back at the index of the child it
        belongs to (a strategy may validate what it is given)."""
        if children is None:
            children = self.decomposition_function(c)
        idx = [i for i, o in enumerate(objs) if o is not None]
        if len(idx) != 1 or len(objs) != len(children):
            raise ValueError(f"a union part tuple has exactly one entry: {objs}")
        i = idx[0]
        ch, o = children[i], objs[i]
        ok = (o == ch.prefix) if ch.just_prefix else str(o).startswith(ch.prefix)
        if not ok:
            raise ValueError(f"{o} handed back at position {i}, which is the child {ch}")
        yield Word(o)


class RemovePatterns(_JsonMixin, DisjointUnionStrategy[W, Word]):
    """Inferral: remove patterns that contain another pattern (same object set)."""

    SETTINGS = ()

    def __init__(self, **kw):
        super().__init__(**kw)

    def decomposition_function(self, c: W) -> Optional[Tuple[W, ...]]:
        if c.marked:
            return None
        keep = tuple(p for p in c.patterns if not any(q != p and q in p for q in c.patterns))
        if keep == c.patterns:
            return None
        return (c.with_(patterns=keep),)

    def extra_parameters(self, c: W, children=None):
        return (identity_map(c.stats),)

    def formal_step(self) -> str:
        return "remove redundant patterns"

    def forward_map(self, c: W, word: Word, children=None):
        return (word,)


class AddImpliedPattern(_JsonMixin, DisjointUnionStrategy[W, Word]):
    """A ONE-WAY equivalence: add a pattern that is implied by the smallest pattern
    (same object set).  is_two_way / is_reversible are False, so the rule databases
    record a one-way edge; together with RemovePatterns (two-way, back to the parent)
    this produces one-way edges inside equivalence classes, cycles of one-way edges and
    two-way rules that replace one-way rules with the same labels."""

    SETTINGS = ("two_way",)

    def __init__(self, two_way: bool = False, **kw):
        # two_way=True: the same map declared as a two-way equivalence (a pack listing the
        # one-way strategy before the two-way one inserts the same key twice, first into
        # the general store and then into the two-way store)
        self.two_way = bool(two_way)
        super().__init__(**kw)

    def is_two_way(self, comb_class) -> bool:
        return self.two_way

    def is_reversible(self, comb_class) -> bool:
        return self.two_way

    def decomposition_function(self, c: W) -> Optional[Tuple[W, ...]]:
        if c.marked or c.just_prefix or not c.patterns:
            return None
        # only for irredundant pattern sets: the child is then redundant, so the strategy
        # does not apply to it again and the universe stays finite
        if any(q != p and q in p for p in c.patterns for q in c.patterns):
            return None
        p = min(c.patterns, key=lambda w: (len(w), w))
        new = p + c.alphabet[0]
        return (c.with_(patterns=tuple(c.patterns) + (new,)),)

    def extra_parameters(self, c: W, children=None):
        return (identity_map(c.stats),)

    def formal_step(self) -> str:
        return "add an implied pattern (%s)" % ("two way" if self.two_way else "one way")

    def forward_map(self, c: W, word: Word, children=None):
        return (word,)


class NormaliseStats(_JsonMixin, DisjointUnionStrategy[W, Word]):
    """Inferral: restrict every statistic to the letters that can occur (drops
    statistics that are always 0 and merges statistics that coincide)."""

    SETTINGS = ()

    def __init__(self, **kw):
        super().__init__(**kw)

    def decomposition_function(self, c: W) -> Optional[Tuple[W, ...]]:
        if c.marked:
            return None
        st, _ = restrict_stats(c.stats, c.effective_letters())
        if st == c.stats:
            return None
        return (c.with_(stats=st),)

    def extra_parameters(self, c: W, children=None):
        return (restrict_stats(c.stats, c.effective_letters())[1],)

    def formal_step(self) -> str:
        return "normalise statistics"

    def forward_map(self, c: W, word: Word, children=None):
        return (word,)


def _swap_str(s: str, a: str, b: str) -> str:
    return s.translate(str.maketrans(a + b, b + a))


class SwapLetters(_JsonMixin, SymmetryStrategy[W, Word]):
    """Symmetry: exchange the two smallest letters everywhere (renames statistics)."""

    SETTINGS = ()

    def __init__(self, **kw):
        super().__init__(**kw)

    @staticmethod
    def _ab(c: W):
        return c.alphabet[0], c.alphabet[1]

    def decomposition_function(self, c: W) -> Optional[Tuple[W, ...]]:
        if c.marked or len(c.alphabet) < 2:
            return None
        a, b = self._ab(c)
        return (
            c.with_(
                prefix=_swap_str(c.prefix, a, b),
                patterns=tuple(_swap_str(p, a, b) for p in c.patterns),
                stats=tuple("".join(sorted(_swap_str(s, a, b))) for s in c.stats),
            ),
        )

    def extra_parameters(self, c: W, children=None):
        a, b = self._ab(c)
        return ({pname(s): pname("".join(sorted(_swap_str(s, a, b)))) for s in c.stats},)

    def formal_step(self) -> str:
        return "swap the two smallest letters"

    def forward_map(self, c: W, word: Word, children=None):
        a, b = self._ab(c)
        return (Word(_swap_str(word, a, b)),)

    def backward_map(self, c: W, objs, children=None):
        a, b = self._ab(c)
        yield Word(_swap_str(objs[0], a, b))


# ---------------------------------------------------------------------------
# product strategy


def safe_index(c: W) -> int:
    """How much of the prefix can be split off without affecting avoidance."""
    prefix, patterns = c.prefix, c.patterns
    m = max((len(p) for p in patterns), default=1)
    safe = max(0, len(prefix) - m + 1)
    for i in range(safe, len(prefix)):
        end = prefix[i:]
        if any(end == patt[: len(end)] for patt in patterns):
            break
        safe = i + 1
    return safe


class RemoveFront(_JsonMixin, CartesianProductStrategy[W, Word]):
    """prefix = u·v with u safe to split off:  {u} × v·Av(...).  norm=True:
    the atom child only keeps (restricted, merged) statistics it can contribute to.
    swap=True: the second factor is the letter-swapped image of v·Av(...) (a bijective
    product whose child carries PERMUTED statistic names, e.g. k_a -> k_b, k_b -> k_a)."""

    SETTINGS = ("norm", "swap")

    def __init__(self, norm: bool = False, swap: bool = False, **kw):
        self.norm = norm
        self.swap = swap
        super().__init__(**kw)

    def _swapped(self, c: W) -> W:
        a, b = c.alphabet[0], c.alphabet[1]
        return c.with_(
            prefix=_swap_str(c.prefix, a, b),
            patterns=tuple(_swap_str(p, a, b) for p in c.patterns),
            stats=tuple("".join(sorted(_swap_str(s, a, b))) for s in c.stats),
        )

    def decomposition_function(self, c: W) -> Optional[Tuple[W, ...]]:
        if c.marked or c.just_prefix or c.is_empty():
            return None
        if self.swap and len(c.alphabet) < 2:
            return None
        safe = safe_index(c)
        if safe <= 0:
            return None
        u, v = c.prefix[:safe], c.prefix[safe:]
        atom = c.with_(prefix=u, just_prefix=True)
        if self.norm:
            atom = atom.with_(stats=restrict_stats(c.stats, atom.effective_letters())[0])
        rest = c.with_(prefix=v)
        if self.norm:
            # the second factor is normalised too: with single-letter patterns it can merge
            # statistics although it is not an atom
            rest = rest.with_(stats=restrict_stats(c.stats, rest.effective_letters())[0])
        if self.swap:
            rest = self._swapped(rest)
        return (atom, rest)

    def extra_parameters(self, c: W, children=None):
        if children is None:
            children = self.decomposition_function(c)
            if children is None:
                raise StrategyDoesNotApply("does not apply")
        atom = children[0]
        if self.norm:
            m0 = restrict_stats(c.stats, atom.effective_letters())[1]
        else:
            m0 = identity_map(c.stats)
        if self.norm:
            plain_rest = c.with_(prefix=c.prefix[len(atom.prefix):])
            m1 = restrict_stats(c.stats, plain_rest.effective_letters())[1]
        else:
            m1 = identity_map(c.stats)
        if self.swap:
            a, b = c.alphabet[0], c.alphabet[1]
            m1 = {k: "k_" + "".join(sorted(_swap_str(v[2:], a, b))) for k, v in m1.items()}
        return (m0, m1)

    def formal_step(self) -> str:
        return "remove the front of the prefix" + (" (rest letter-swapped)" if self.swap else "")

    def backward_map(self, c: W, objs, children=None):
        second = objs[1]
        if self.swap:
            second = _swap_str(second, c.alphabet[0], c.alphabet[1])
        yield Word(objs[0] + second)

    def forward_map(self, c: W, word: Word, children=None):
        if children is None:
            children = self.decomposition_function(c)
        k = len(children[0].prefix)
        rest = word[k:]
        if self.swap:
            rest = _swap_str(rest, c.alphabet[0], c.alphabet[1])
        return (Word(word[:k]), Word(rest))


# ---------------------------------------------------------------------------
# factories


class ExpandFactory(StrategyFactory[W]):
    """Yields strategies."""

    def __init__(self, ks: Sequence[int] = (1, 2)):
        self.ks = tuple(ks)

    def __call__(self, c: W):
        if c.marked:
            return
        for k in self.ks:
            yield Expand(k=k)

    def __str__(self) -> str:
        return f"expand factory {self.ks}"

    def __repr__(self) -> str:
        return f"ExpandFactory({self.ks!r})"

    def to_jsonable(self) -> dict:
        d = super().to_jsonable()
        d["ks"] = list(self.ks)
        return d

    @classmethod
    def from_dict(cls, d: dict) -> "ExpandFactory":
        return cls(tuple(d["ks"]))


class GenericExpandFactory(StrategyFactory[CombinatorialClassType]):
    """ExpandFactory left generic in the class type, so that instances can be created
    directly (GenericExpandFactory()) and through a subscripted alias
    (GenericExpandFactory[W]()); both are the same kind with the same settings."""

    __init__ = ExpandFactory.__init__
    __call__ = ExpandFactory.__call__

    def to_jsonable(self) -> dict:
        d = super().to_jsonable()
        d["ks"] = list(self.ks)
        return d

    def __str__(self) -> str:
        return f"generic expand factory {self.ks}"

    def __repr__(self) -> str:
        return f"GenericExpandFactory({self.ks!r})"

    @classmethod
    def from_dict(cls, d: dict) -> "GenericExpandFactory":
        return cls(tuple(d["ks"]))


class MixedFactory(StrategyFactory[W]):
    """Yields strategy objects of which the first does not apply to every class:
    RemoveFront() (not applicable to a class without a prefix), then Expand()."""

    def __call__(self, c: W):
        if c.marked:
            return
        yield RemoveFront()
        yield Expand()

    def __str__(self) -> str:
        return "mixed factory"

    def __repr__(self) -> str:
        return "MixedFactory()"

    @classmethod
    def from_dict(cls, d: dict) -> "MixedFactory":
        return cls()


class RuleFactory(StrategyFactory[W]):
    """Yields ready rules: the expansion of the class itself and, for a class
    with a non-empty prefix, the expansion of the class whose prefix is one
    letter shorter (a rule whose parent differs from the expanded class).
    foreign_first=True yields the foreign-parent rule before the class's own rule."""

    def __init__(self, foreign_first: bool = False, foreign_k: int = 1):
        # foreign_k=2: the foreign-parent rule is the two-letter expansion of the class whose
        # prefix is two letters shorter -- a rule that no application of the pack to its
        # *parent* produces (only the applications to its children do)
        self.foreign_first = foreign_first
        self.foreign_k = int(foreign_k)

    def __call__(self, c: W):
        if c.marked or c.just_prefix:
            return
        own = Expand()(c)
        k = self.foreign_k
        foreign = Expand(k=k)(c.with_(prefix=c.prefix[:-k])) if len(c.prefix) >= k else None
        if self.foreign_first and foreign is not None:
            yield foreign
            yield own
        else:
            yield own
            if foreign is not None:
                yield foreign

    def __str__(self) -> str:
        return "rule factory" + (" (foreign parent first)" if self.foreign_first else "") + (f" (foreign expansion by {self.foreign_k})" if self.foreign_k != 1 else "")

    def __repr__(self) -> str:
        return f"RuleFactory(foreign_first={self.foreign_first}, foreign_k={self.foreign_k})"

    def to_jsonable(self) -> dict:
        d = super().to_jsonable()
        d["foreign_first"] = self.foreign_first
        d["foreign_k"] = self.foreign_k
        return d

    @classmethod
    def from_dict(cls, d: dict) -> "RuleFactory":
        return cls(bool(d.get("foreign_first", False)), int(d.get("foreign_k", 1)))


# ---------------------------------------------------------------------------
# verification


class WordAtom(VerificationStrategy[W, Word]):
    """Atoms, with statistics."""

    def __init__(self):
        super().__init__(ignore_parent=True)

    def verified(self, c: W) -> bool:
        return c.just_prefix and not c.marked

    def formal_step(self) -> str:
        return "is a single word"

    def get_terms(self, c: W, n: int):
        if n == len(c.prefix) and not c.is_empty():
            return Counter([c.get_parameters(c.prefix)])
        return Counter()

    def get_objects(self, c: W, n: int):
        from collections import defaultdict

        res = defaultdict(list)
        if n == len(c.prefix) and not c.is_empty():
            res[c.get_parameters(c.prefix)].append(Word(c.prefix))
        return res

    def get_genf(self, c: W, funcs=None):
        import sympy

        x = sympy.var("x")
        res = x ** len(c.prefix)
        for s in c.stats:
            res *= sympy.var(pname(s)) ** c.stat_value(s, c.prefix)
        return res

    def random_sample_object_of_size(self, c: W, n: int, **parameters: int):
        if n != len(c.prefix):
            raise ValueError("Invalid size")
        return Word(c.prefix)

    def pack(self, c: W) -> StrategyPack:
        raise InvalidOperationError("no pack for atoms")

    def to_jsonable(self) -> dict:
        d = super().to_jsonable()
        d.pop("ignore_parent")
        return d

    @classmethod
    def from_dict(cls, d: dict) -> "WordAtom":
        return cls()

    def __repr__(self) -> str:
        return "WordAtom()"

    def __str__(self) -> str:
        return "verify single words"


class VerifyByPrefix(VerificationStrategy[W, Word]):
    """Verifies the (non-atomic, non-empty) classes whose prefix is in `prefixes`;
    enumerates them by brute force and offers a pack to expand them.
    inner: the offered pack itself verifies the classes with a prefix in `inner` (nested
    verification: expanding one verified class brings in another one).
    via_pack: terms / objects are NOT computed by brute force but through the default
    implementation, i.e. a nested search with the offered pack."""

    def __init__(self, prefixes: Iterable[str] = ("",), ignore_parent: bool = False, inner: Iterable[str] = (), via_pack: bool = False):
        self.prefixes = tuple(sorted(prefixes))
        self.inner = tuple(sorted(inner))
        self.via_pack = bool(via_pack)
        super().__init__(ignore_parent=ignore_parent)

    def verified(self, c: W) -> bool:
        return (not c.marked) and (not c.just_prefix) and (not c.is_empty()) and c.prefix in self.prefixes

    def formal_step(self) -> str:
        return f"verified by prefix in {self.prefixes}" + (f" (inner {self.inner})" if self.inner else "")

    def get_terms(self, c: W, n: int):
        if not self.verified(c):
            raise StrategyDoesNotApply("not verified")
        if self.via_pack:
            return super().get_terms(c, n)
        return c.get_terms(n)

    def get_objects(self, c: W, n: int):
        if not self.verified(c):
            raise StrategyDoesNotApply("not verified")
        if self.via_pack:
            return super().get_objects(c, n)
        from collections import defaultdict

        res = defaultdict(list)
        for w in c.objects_of_size(n):
            res[c.get_parameters(w)].append(w)
        return res

    def random_sample_object_of_size(self, c: W, n: int, **parameters: int):
        import comb_spec_searcher.strategies.rule as rl

        objs = list(c.objects_of_size(n, **parameters))
        return rl.random.choice(objs)

    def pack(self, c: W) -> StrategyPack:
        if self.inner:
            return StrategyPack(
                initial_strats=[RemoveFront()],
                inferral_strats=[],
                expansion_strats=[[Expand()]],
                ver_strats=[WordAtom(), VerifyByPrefix(self.inner)],
                name="base+inner@" + (c.prefix or "e"),
            )
        # the pack on offer depends on the class (here: in its name only, so that it is always
        # sufficient); packs of different classes are different StrategyPack objects
        pk = base_pack()
        pk.name = "base@" + (c.prefix or "e")
        return pk

    def to_jsonable(self) -> dict:
        d = super().to_jsonable()
        d["prefixes"] = list(self.prefixes)
        d["inner"] = list(self.inner)
        d["via_pack"] = self.via_pack
        return d

    @classmethod
    def from_dict(cls, d: dict) -> "VerifyByPrefix":
        return cls(tuple(d["prefixes"]), ignore_parent=d.get("ignore_parent", False), inner=tuple(d.get("inner", ())), via_pack=d.get("via_pack", False))

    def __repr__(self) -> str:
        extra = (f", inner={self.inner!r}" if self.inner else "") + (", via_pack=True" if self.via_pack else "")
        return f"VerifyByPrefix({self.prefixes!r}{extra})"

    def __str__(self) -> str:
        return self.formal_step()


# ---------------------------------------------------------------------------
# a rule whose object map is NOT a bijection: marked words  (custom constructor)


from comb_spec_searcher.strategies.constructor.base import Constructor as _Constructor  # noqa: E402
from comb_spec_searcher.strategies.strategy import Strategy as _Strategy  # noqa: E402


class Multiple(_Constructor):
    """parent = k copies of the child (k preimages per child object)."""

    def __init__(self, k: int):
        self.k = k

    def can_be_equivalent(self) -> bool:
        return False

    def get_equation(self, lhs_func, rhs_funcs):
        import sympy

        return sympy.Eq(lhs_func, self.k * rhs_funcs[0])

    def reliance_profile(self, n: int, **parameters: int):
        return ({"n": (n,)},)

    def get_terms(self, parent_terms, subterms, n: int):
        return Counter({p: self.k * v for p, v in subterms[0](n).items() if v})

    def get_sub_objects(self, subobjs, n: int):
        for param, objs in subobjs[0](n).items():
            yield (param, (objs,))

    def random_sample_sub_objects(self, parent_count: int, subsamplers, subrecs, n: int, **parameters: int):
        return (subsamplers[0](n=n, **parameters),)

    def equiv(self, other, data=None):
        return (isinstance(other, Multiple) and other.k == self.k, None)


class Unmark(_JsonMixin, _Strategy[W, Word]):
    """{x,y,z}·C  ->  C   (three-to-one)."""

    SETTINGS = ()

    def __init__(self, **kw):
        kw.setdefault("ignore_parent", True)
        kw.setdefault("possibly_empty", False)
        kw.setdefault("inferrable", False)
        super().__init__(**kw)

    def can_be_equivalent(self) -> bool:
        return False

    def is_two_way(self, comb_class) -> bool:
        return False

    def is_reversible(self, comb_class) -> bool:
        return False

    def shifts(self, comb_class, children=None):
        return (0,)

    def decomposition_function(self, c):
        if not c.marked or c.is_empty():
            return None
        return (c.with_(marked=False),)

    def constructor(self, comb_class, children=None):
        return Multiple(len(MARKS))

    def reverse_constructor(self, idx, comb_class, children=None):
        raise NotImplementedError

    def extra_parameters(self, comb_class, children=None):
        return (identity_map(comb_class.stats),)

    def formal_step(self) -> str:
        return "forget the mark"

    def forward_map(self, comb_class, obj, children=None):
        return (Word(obj[1:]),)

    def backward_map(self, comb_class, objs, children=None):
        for m in MARKS:
            yield Word(m + objs[0])


# ---------------------------------------------------------------------------
# packs


def base_pack(norm: bool = False, atom=None) -> StrategyPack:
    return StrategyPack(
        initial_strats=[RemoveFront(norm=norm)],
        inferral_strats=[],
        expansion_strats=[[Expand(norm=norm)]],
        ver_strats=[atom if atom is not None else WordAtom()],
        name="base" + ("-norm" if norm else ""),
    )


def make_pack(name: str) -> StrategyPack:
    """The pack lattice of DESIGN 3.4, by name.  Names are '+'-joined features."""
    feats = name.split("+")
    norm = "norm" in feats
    initial: List = [RemoveFront(norm=norm)]
    expansion: List[List] = [[Expand(norm=norm)]]
    inferral: List = []
    ver: List = [WordAtom()]
    symmetries: List = []
    iterative = False
    for f in feats:
        if f in ("base", "norm"):
            continue
        elif f == "marked":  # start classes {x,y,z}·C: a three-to-one rule with a custom constructor
            initial = [Unmark()] + initial
        elif f == "rfswap":  # the product strategy hands on a letter-swapped second factor
            initial = [RemoveFront(norm=norm, swap=True)]
        elif f == "swapped":  # initial / expansion exchanged
            initial, expansion = [Expand(norm=norm)], [[RemoveFront(norm=norm)]]
        elif f == "two":  # two expansion sets
            expansion = [[Expand(norm=norm)], [Expand(k=2, norm=norm)]]
        elif f == "noinit":
            initial, expansion = [], [[RemoveFront(norm=norm), Expand(norm=norm)]]
        elif f == "dropempty":
            expansion = [[Expand(norm=norm, drop_empty=True)]]
        elif f == "atomlast":
            expansion = [[Expand(norm=norm, atom_last=True)]]
        elif f == "sym":
            symmetries = [SwapLetters()]
        elif f == "oneway":  # one-way equivalence as an initial strategy
            initial = initial + [AddImpliedPattern()]
        elif f == "onewayexp":  # ... as an expansion strategy
            expansion = [expansion[0] + [AddImpliedPattern()]] + expansion[1:]
        elif f == "inf1":
            inferral = [RemovePatterns()]
        elif f == "inf2":
            inferral = [RemovePatterns(), NormaliseStats()]
        elif f == "inf2r":
            inferral = [NormaliseStats(), RemovePatterns()]
        elif f == "sfac":
            expansion = [[ExpandFactory()]]
        elif f == "mfac":  # a factory yielding a strategy that does not apply before the one that does
            initial, expansion = [], [[MixedFactory()]]
        elif f == "rfac":
            expansion = [[RuleFactory()]]
        elif f == "rfac2":
            expansion = [[RuleFactory(foreign_first=True)]]
        elif f == "flip":  # children list the statistics in the other order
            expansion = [[Expand(norm=norm, flip=True)]]
        elif f == "rfac3":
            expansion = [[RuleFactory(foreign_k=2)]]
        elif f == "oneway2":  # the same one-child key inserted by a one-way and then by a two-way strategy
            initial = initial + [AddImpliedPattern(), AddImpliedPattern(two_way=True)]
        elif f == "rfaconly":
            initial, expansion = [], [[RuleFactory()]]
        elif f.startswith("ver:"):
            prefs = tuple(p if p != "e" else "" for p in f[4:].split(",") if p != "")
            ver = [WordAtom(), VerifyByPrefix(prefs)]
        elif f.startswith("ver2:"):  # ver2:a>ab  -- verify prefix a with a pack that verifies prefix ab
            outer, _, inner_ = f[5:].partition(">")
            op = tuple(p if p != "e" else "" for p in outer.split(",") if p)
            ip = tuple(p if p != "e" else "" for p in inner_.split(",") if p)
            ver = [WordAtom(), VerifyByPrefix(op, inner=ip)]
        elif f.startswith("verp:"):  # verified classes are counted through their pack
            prefs = tuple(p if p != "e" else "" for p in f[5:].split(",") if p != "")
            ver = [WordAtom(), VerifyByPrefix(prefs, via_pack=True)]
        elif f.startswith("verfirst:"):
            prefs = tuple(p if p != "e" else "" for p in f[9:].split(",") if p != "")
            ver = [VerifyByPrefix(prefs), WordAtom()]
        elif f == "iter":
            iterative = True
        else:
            raise ValueError(f"unknown pack feature {f}")
    return StrategyPack(
        initial_strats=initial,
        inferral_strats=inferral,
        expansion_strats=expansion,
        ver_strats=ver,
        name=name,
        symmetries=symmetries,
        iterative=iterative,
    )


# ---------------------------------------------------------------------------
# brute force (independent of the library)


_BF_CACHE: Dict[Tuple, List[Counter]] = {}


def brute_terms(c, n: int) -> Counter:
    """Counter {parameter tuple: count} of the objects of size n, by plain enumeration."""
    if c.marked:
        return Counter({p: len(MARKS) * v for p, v in brute_terms(c.with_(marked=False), n).items()})
    key = c.key()
    lst = _BF_CACHE.get(key)
    if lst is None:
        if len(_BF_CACHE) > 20000:
            _BF_CACHE.clear()
        lst = _BF_CACHE[key] = []
    while len(lst) <= n:
        m = len(lst)
        cnt: Counter = Counter()
        for w in brute_objects(c, m):
            cnt[tuple(sum(1 for ch in w if ch in s) for s in c.stats)] += 1
        lst.append(cnt)
    return lst[n]


def brute_objects(c, n: int) -> List[str]:
    if c.marked:
        return [m + w for w in brute_objects(c.with_(marked=False), n) for m in MARKS]
    if any(p in c.prefix for p in c.patterns) or n < len(c.prefix):
        return []
    if c.just_prefix:
        return [str(c.prefix)] if n == len(c.prefix) else []
    res = []
    for tail in product(c.alphabet, repeat=n - len(c.prefix)):
        w = c.prefix + "".join(tail)
        if not any(p in w for p in c.patterns):
            res.append(w)
    return res


def brute_empty(c) -> bool:
    """Exact emptiness: a class is non-empty iff its prefix avoids the patterns
    (then the prefix itself is an object)."""
    return any(p in c.prefix for p in c.patterns)


# ---------------------------------------------------------------------------
# domain gate: the contracts of DESIGN 2.3, checked set-theoretically


def gate_class(c, N: int) -> Optional[str]:
    if c.marked:
        return gate_class(c.with_(marked=False), N)
    N = max(N, len(c.prefix))  # long prefixes (deep searches): the class starts at size len(prefix)
    objs = [o for n in range(N + 1) for o in brute_objects(c, n)]
    lib_objs = [str(o) for n in range(N + 1) for o in c.objects_of_size(n)]
    if sorted(objs) != sorted(lib_objs):
        return f"objects_of_size of {c!r} disagrees with plain enumeration"
    if c.is_empty() != brute_empty(c):
        return f"is_empty of {c!r}"
    if not c.is_empty():
        if objs and min(map(len, objs)) != c.minimum_size_of_object():
            return f"minimum_size_of_object of {c!r}"
        if c.is_atom() != (c.just_prefix):
            return f"is_atom of {c!r}"
        if c.is_atom() and len(objs) != 1:
            return f"atom {c!r} has {len(objs)} objects"
        for s in c.stats:
            vals = [sum(1 for ch in o if ch in s) for o in objs]
            if vals and min(vals) != c.get_minimum_value(pname(s)):
                return f"get_minimum_value({s}) of {c!r}"
    return None


def _pvals(c: W, o: str) -> Dict[str, int]:
    return {pname(s): sum(1 for ch in o if ch in s) for s in c.stats}


def gate_rule(rule, N: int) -> Optional[str]:
    """Check one rule produced by a domain strategy against plain enumeration."""
    from comb_spec_searcher.strategies.rule import Rule, VerificationRule

    c: W = rule.comb_class
    children = rule.children
    for x in (c,) + tuple(children):
        e = gate_class(x, N)
        if e:
            return e
    if isinstance(rule, VerificationRule):
        if not rule.strategy.verified(c):
            return f"verification rule for unverified {c!r}"
        return None
    strat = rule.strategy
    if isinstance(strat, Unmark):
        child_objs = set(o for n in range(N + 1) for o in brute_objects(children[0], n))
        pre: Dict[str, set] = {}
        for o in (x for n in range(N + 1) for x in brute_objects(c, n)):
            (img,) = rule.forward_map(Word(o))
            if str(img) not in child_objs or Word(img).size() != Word(o).size():
                return f"unmark forward_map of {o}"
            pre.setdefault(str(img), set()).add(o)
        for w in child_objs:
            if set(map(str, rule.backward_map((Word(w),)))) != pre.get(w, set()) or len(pre.get(w, ())) != len(MARKS):
                return f"unmark backward_map of {w}"
        return None
    ep = strat.extra_parameters(c, children)
    if len(ep) != len(children):
        return "extra_parameters length"
    for ch, m in zip(children, ep):
        if not set(m.keys()) <= set(c.extra_parameters) or not set(m.values()) <= set(ch.extra_parameters):
            return f"extra_parameters names {m} for child {ch!r} of {c!r}"
        if set(m.values()) != set(ch.extra_parameters):
            return f"child parameter of {ch!r} is the image of no parent parameter of {c!r}"
    parent_objs = [o for n in range(N + 1) for o in brute_objects(c, n)]
    child_sets = [set(o for n in range(N + 1) for o in brute_objects(ch, n)) for ch in children]
    if isinstance(strat, DisjointUnionStrategy):
        seen = [set() for _ in children]
        for o in parent_objs:
            img = rule.forward_map(Word(o))
            idx = [i for i, x in enumerate(img) if x is not None]
            if len(idx) != 1:
                return f"union forward_map of {o} in {c!r}: {img}"
            i = idx[0]
            x = str(img[i])
            if x not in child_sets[i]:
                return f"union image {x} of {o} not in child {children[i]!r}"
            if x in seen[i]:
                return f"union forward_map not injective at {x}"
            seen[i].add(x)
            back = list(rule.backward_map(img))
            if [str(b) for b in back] != [o]:
                return f"union backward_map({img}) = {back} != {o}"
            pv, cv = _pvals(c, o), _pvals(children[i], x)
            for pk, val in pv.items():
                if pk in ep[i]:
                    if cv[ep[i][pk]] != val:
                        return f"parameter {pk} of {o} not carried to child {children[i]!r}"
                elif val != 0:
                    return f"parameter {pk} of {o} dropped but non-zero"
        for i, s in enumerate(child_sets):
            if {x for x in s if len(x) <= N} != seen[i]:
                return f"child {children[i]!r} of {c!r} not covered by the union"
    elif isinstance(strat, CartesianProductStrategy):
        # (shifts() is library code: judged by C10, not by the gate)
        if c.is_empty() or any(ch.is_empty() for ch in children):
            return f"product with an empty class: {c!r}"
        seen_t = set()
        for o in parent_objs:
            img = rule.forward_map(Word(o))
            if len(img) != len(children) or any(x is None for x in img):
                return f"product forward_map of {o}"
            t = tuple(map(str, img))
            if any(x not in s for x, s in zip(t, child_sets)):
                return f"product image {t} of {o} not in children of {c!r}"
            if sum(map(len, t)) != len(o):
                return "product sizes do not add"
            if t in seen_t:
                return "product forward_map not injective"
            seen_t.add(t)
            back = [str(b) for b in rule.backward_map(img)]
            if back != [o]:
                return f"product backward_map({t}) = {back}"
            pv = _pvals(c, o)
            for pk, val in pv.items():
                tot = 0
                for ch, x, m in zip(children, t, ep):
                    if pk in m:
                        tot += _pvals(ch, x)[m[pk]]
                if tot != val:
                    return f"parameter {pk} of {o} does not add over the factors"
        # surjectivity up to total size N
        for t in product(*[sorted(s) for s in child_sets]):
            if sum(map(len, t)) <= N and t not in seen_t:
                return f"product tuple {t} is the image of no object of {c!r}"
    else:
        return f"unknown strategy kind {type(strat)}"
    return None


# ---------------------------------------------------------------------------
# start classes


def pattern_sets(max_patterns: int, max_len: int, alphabet: str = "ab") -> List[Tuple[str, ...]]:
    words = ["".join(w) for l in range(1, max_len + 1) for w in product(alphabet, repeat=l)]
    res: List[Tuple[str, ...]] = [()]
    from itertools import combinations

    for k in range(1, max_patterns + 1):
        res.extend(combinations(words, k))
    return res


REPO_TEST_PATTERNS = [
    ("b",),
    ("ab",),
    ("aa", "bb"),
    ("bb",),
    ("ababa", "babb"),
    ("aa",),
    ("bab",),
]


def start_classes(tier: str, cls=W) -> List[W]:
    pats = pattern_sets(2, 2)
    for p in REPO_TEST_PATTERNS:
        if tuple(sorted(p)) not in [tuple(sorted(q)) for q in pats]:
            pats.append(p)
    res = [cls("", p, "ab") for p in pats]
    if tier == "thorough":
        more = [p for p in pattern_sets(2, 3) if p not in pats]
        res += [cls("", p, "ab") for p in more]
        res += [cls(pre, p, "ab") for pre in ("a", "ab") for p in pattern_sets(2, 2)]
        res += [cls("", p, "abc") for p in [("ab",), ("aa", "bc"), ("abc",), ("b", "ca")]]
    return res
