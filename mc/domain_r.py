"""R-domain: regular languages over {a, b}, one class per language (canonical minimal DFA).

Why a third domain: in the W- and G-domains a class has essentially one decomposition.
Here every language can be split by its FIRST letter or by its LAST letter, and a language
whose words all start (end) with the same letter factors on the left (right).  All four
strategies are genuine, unambiguous and size preserving, the universe of a start language
is finite (left/right quotients and first/last-letter restrictions of a regular language),
and classes are shared between the two ways of decomposing -- so a class has several
alternative rules, one class meets several partners, and the parallel specification finder
has real choices to make and to undo.

Objects are words (mc.domain_w.Word).  No statistics.
"""

from __future__ import annotations

from collections import Counter
from functools import lru_cache
from typing import Dict, Iterator, List, Optional, Sequence, Set, Tuple

from comb_spec_searcher import CartesianProductStrategy, CombinatorialClass, DisjointUnionStrategy, StrategyPack
from comb_spec_searcher.strategies import AtomStrategy

from mc.domain_w import Word

ALPH = "ab"
Dfa = Tuple[Tuple[Tuple[int, ...], ...], Tuple[bool, ...]]  # (rows: state -> next state per letter or -1, accepting)
EMPTY: Dfa = ((), ())


# ---------------------------------------------------------------------------
# canonical minimal trim DFAs


def canon(start, delta: Dict[Tuple[object, str], object], accepting: Set[object]) -> Dfa:
    """Canonical form of the language of the partial DFA (start, delta, accepting)."""
    # reachable
    reach = [start]
    seen = {start}
    for q in reach:
        for x in ALPH:
            t = delta.get((q, x))
            if t is not None and t not in seen:
                seen.add(t)
                reach.append(t)
    # co-reachable
    co = {q for q in reach if q in accepting}
    changed = True
    while changed:
        changed = False
        for q in reach:
            if q not in co and any(delta.get((q, x)) in co for x in ALPH):
                co.add(q)
                changed = True
    if start not in co:
        return EMPTY
    states = [q for q in reach if q in co]
    sink = object()

    def step(q, x):
        if q is sink:
            return sink
        t = delta.get((q, x))
        return t if t in co else sink

    # Moore refinement on the completed automaton
    block = {q: (1 if q in accepting else 0) for q in states}
    block[sink] = 2
    while True:
        sig = {q: (block[q],) + tuple(block[step(q, x)] for x in ALPH) for q in list(states) + [sink]}
        ids: Dict[Tuple, int] = {}
        new = {}
        for q in list(states) + [sink]:
            new[q] = ids.setdefault(sig[q], len(ids))
        if len(ids) == len(set(block.values())):
            block = new
            break
        block = new
    # renumber by breadth-first search from the start, letters in order
    order: List[int] = []
    number: Dict[int, int] = {}
    rep: Dict[int, object] = {}
    for q in states:
        rep.setdefault(block[q], q)
    todo = [block[start]]
    number[block[start]] = 0
    while todo:
        b = todo.pop(0)
        order.append(b)
        for x in ALPH:
            t = step(rep[b], x)
            if t is sink:
                continue
            tb = block[t]
            if tb not in number:
                number[tb] = len(number)
                todo.append(tb)
    rows = []
    acc = []
    for b in order:
        q = rep[b]
        row = []
        for x in ALPH:
            t = step(q, x)
            row.append(-1 if t is sink else number[block[t]])
        rows.append(tuple(row))
        acc.append(q in accepting)
    return (tuple(rows), tuple(acc))


def _delta(d: Dfa) -> Tuple[Dict, Set]:
    rows, acc = d
    delta = {}
    for q, row in enumerate(rows):
        for x, t in zip(ALPH, row):
            if t >= 0:
                delta[(q, x)] = t
    return delta, {q for q, a in enumerate(acc) if a}


def word_language(w: str) -> Dfa:
    delta = {(i, ch): i + 1 for i, ch in enumerate(w)}
    return canon(0, delta, {len(w)})


EPS = word_language("")


def has_eps(d: Dfa) -> bool:
    return bool(d[0]) and d[1][0]


@lru_cache(maxsize=None)
def restrict_first(d: Dfa, x: str) -> Dfa:
    """Words of the language that start with x."""
    if not d[0]:
        return EMPTY
    delta, acc = _delta(d)
    t = delta.get((0, x))
    if t is None:
        return EMPTY
    delta2 = dict(delta)
    delta2[("s", x)] = t
    return canon("s", delta2, acc)


@lru_cache(maxsize=None)
def restrict_last(d: Dfa, x: str) -> Dfa:
    """Words of the language that end with x."""
    if not d[0]:
        return EMPTY
    delta, acc = _delta(d)
    delta2 = {}
    for (q, y), t in delta.items():
        for flag in (0, 1):
            delta2[((q, flag), y)] = (t, 1 if y == x else 0)
    return canon((0, 0), delta2, {(q, 1) for q in acc})


@lru_cache(maxsize=None)
def left_quotient(d: Dfa, x: str) -> Dfa:
    if not d[0]:
        return EMPTY
    delta, acc = _delta(d)
    t = delta.get((0, x))
    if t is None:
        return EMPTY
    return canon(t, delta, acc)


@lru_cache(maxsize=None)
def right_quotient(d: Dfa, x: str) -> Dfa:
    if not d[0]:
        return EMPTY
    delta, acc = _delta(d)
    return canon(0, delta, {q for q in range(len(d[0])) if delta.get((q, x)) in acc})


@lru_cache(maxsize=None)
def counts(d: Dfa, n: int) -> int:
    return len(words(d, n))


@lru_cache(maxsize=200000)
def words(d: Dfa, n: int) -> Tuple[str, ...]:
    """All words of length n, by walking the automaton (plain enumeration)."""
    if not d[0]:
        return ()
    rows, acc = d
    res: List[str] = []

    def rec(q: int, w: str):
        if len(w) == n:
            if acc[q]:
                res.append(w)
            return
        for x, t in zip(ALPH, rows[q]):
            if t >= 0:
                rec(t, w + x)

    rec(0, "")
    return tuple(res)


def min_size(d: Dfa) -> int:
    rows, acc = d
    dist = {0: 0}
    todo = [0]
    for q in todo:
        if acc[q]:
            return dist[q]
        for t in rows[q]:
            if t >= 0 and t not in dist:
                dist[t] = dist[q] + 1
                todo.append(t)
    raise ValueError("empty language")


def single_word(d: Dfa) -> Optional[str]:
    """The word if the language has exactly one word."""
    rows, acc = d
    if not rows:
        return None
    w = ""
    q = 0
    seen = set()
    while True:
        if q in seen:
            return None
        seen.add(q)
        outs = [(x, t) for x, t in zip(ALPH, rows[q]) if t >= 0]
        if acc[q]:
            return w if not outs else None
        if len(outs) != 1:
            return None
        w += outs[0][0]
        q = outs[0][1]


# ---------------------------------------------------------------------------
# the class


class R(CombinatorialClass[Word]):
    def __init__(self, dfa: Dfa):
        rows, acc = dfa
        self.dfa: Dfa = (tuple(tuple(r) for r in rows), tuple(bool(a) for a in acc))
        self._hash = hash(self.dfa)
        super().__init__()

    def key(self):
        return self.dfa

    def __eq__(self, other: object) -> bool:
        if not isinstance(other, R):
            return NotImplemented
        return self.dfa == other.dfa

    def __hash__(self) -> int:
        return self._hash

    def sid(self) -> str:
        rows, acc = self.dfa
        if not rows:
            return "R[]"
        return "R[" + ";".join(("*" if a else "") + "".join(str(t) if t >= 0 else "-" for t in row) for row, a in zip(rows, acc)) + "]"

    def __repr__(self) -> str:
        return self.sid()

    def __str__(self) -> str:
        w = single_word(self.dfa)
        if w is not None:
            return "{" + (w or "ε") + "}"
        return self.sid()

    def to_jsonable(self) -> dict:
        d = super().to_jsonable()
        d["rows"] = [list(r) for r in self.dfa[0]]
        d["acc"] = [int(a) for a in self.dfa[1]]
        return d

    @classmethod
    def from_dict(cls, d: dict) -> "R":
        return cls((tuple(tuple(r) for r in d["rows"]), tuple(bool(a) for a in d["acc"])))

    def is_empty(self) -> bool:
        return not self.dfa[0]

    def is_atom(self) -> bool:
        w = single_word(self.dfa)
        return w is not None and len(w) <= 1

    def minimum_size_of_object(self) -> int:
        return min_size(self.dfa)

    @property
    def extra_parameters(self) -> Tuple[str, ...]:
        return ()

    stats: Tuple[str, ...] = ()

    def objects_of_size(self, n: int, **parameters: int) -> Iterator[Word]:
        for w in words(self.dfa, n):
            yield Word(w)


def brute_terms(c: R, n: int) -> Counter:
    k = counts(c.dfa, n)
    return Counter({(): k}) if k else Counter()


def brute_objects(c: R, n: int) -> List[str]:
    return list(words(c.dfa, n))


def brute_empty(c: R) -> bool:
    return not c.dfa[0]


# ---------------------------------------------------------------------------
# strategies


class _Json:
    def to_jsonable(self) -> dict:
        return super().to_jsonable()  # type: ignore[misc]

    @classmethod
    def from_dict(cls, d: dict):
        return cls()

    def __repr__(self) -> str:
        return f"{type(self).__name__}()"


def _parts(c: R, restrict) -> List[R]:
    parts = []
    if has_eps(c.dfa):
        parts.append(R(EPS))
    for x in ALPH:
        d = restrict(c.dfa, x)
        if d[0]:
            parts.append(R(d))
    return parts


class _ByLetter(_Json, DisjointUnionStrategy[R, Word]):
    """only: "" (every language), "e" (only languages containing the empty word) or "n" (only
    languages without it) -- a strategy may apply to whatever it wants; restricted variants
    give classes of one universe different sets of alternative rules."""

    RESTRICT = staticmethod(restrict_first)
    WHERE = "first"

    def __init__(self, only: str = "", **kw):
        self.only = only
        kw.pop("possibly_empty", None)
        super().__init__(possibly_empty=False, **kw)

    def to_jsonable(self) -> dict:
        d = super().to_jsonable()
        d.pop("possibly_empty", None)
        d["only"] = self.only
        return d

    @classmethod
    def from_dict(cls, d: dict):
        return cls(only=d.get("only", ""))

    def __repr__(self) -> str:
        return f"{type(self).__name__}({self.only!r})" if self.only else f"{type(self).__name__}()"

    def decomposition_function(self, c: R) -> Optional[Tuple[R, ...]]:
        if c.is_empty():
            return None
        if (self.only == "e" and not has_eps(c.dfa)) or (self.only == "n" and has_eps(c.dfa)):
            return None
        parts = _parts(c, self.RESTRICT)
        if len(parts) < 2:
            return None
        return tuple(parts)

    def formal_step(self) -> str:
        return f"split by the {self.WHERE} letter"

    def forward_map(self, c: R, word: Word, children=None):
        if children is None:
            children = self.decomposition_function(c)
        hit = [i for i, ch in enumerate(children) if str(word) in words(ch.dfa, len(word))]
        if len(hit) != 1:
            raise ValueError(f"{word} lies in {len(hit)} parts of {c}")
        return tuple(word if i == hit[0] else None for i in range(len(children)))

    def backward_map(self, c: R, objs, children=None):
        if children is None:
            children = self.decomposition_function(c)
        idx = [i for i, o in enumerate(objs) if o is not None]
        if len(idx) != 1 or len(objs) != len(children):
            raise ValueError(f"a union part tuple has exactly one entry: {objs}")
        i = idx[0]
        if str(objs[i]) not in words(children[i].dfa, len(objs[i])):
            raise ValueError(f"{objs[i]} handed back at position {i}, which is the child {children[i]}")
        yield Word(objs[i])


class ByFirst(_ByLetter):
    pass


class ByLast(_ByLetter):
    RESTRICT = staticmethod(restrict_last)
    WHERE = "last"


class SplitFirst(_Json, CartesianProductStrategy[R, Word]):
    """All words start with the same letter x (and the language is not {x}):  L = {x} · x⁻¹L."""

    def __init__(self, letter: str = "", **kw):
        self.letter = letter  # "" or the only first letter the strategy deals with
        super().__init__(**kw)

    def to_jsonable(self) -> dict:
        d = super().to_jsonable()
        d["letter"] = self.letter
        return d

    @classmethod
    def from_dict(cls, d: dict):
        return cls(letter=d.get("letter", ""))

    def __repr__(self) -> str:
        return f"{type(self).__name__}({self.letter!r})" if self.letter else f"{type(self).__name__}()"

    def decomposition_function(self, c: R) -> Optional[Tuple[R, ...]]:
        if c.is_empty() or has_eps(c.dfa) or c.is_atom():
            return None
        first = [x for x in ALPH if restrict_first(c.dfa, x)[0]]
        if len(first) != 1 or (self.letter and first[0] != self.letter):
            return None
        return (R(word_language(first[0])), R(left_quotient(c.dfa, first[0])))

    def formal_step(self) -> str:
        return "split off the first letter"

    def forward_map(self, c: R, word: Word, children=None):
        return (Word(word[:1]), Word(word[1:]))

    def backward_map(self, c: R, objs, children=None):
        if children is None:
            children = self.decomposition_function(c)
        if str(objs[0]) not in words(children[0].dfa, len(objs[0])) or str(objs[1]) not in words(children[1].dfa, len(objs[1])):
            raise ValueError(f"parts {objs} do not belong to the factors of {c}")
        yield Word(str(objs[0]) + str(objs[1]))


class SplitLast(_Json, CartesianProductStrategy[R, Word]):
    """All words end with the same letter x (and the language is not {x}):  L = Lx⁻¹ · {x}."""

    def __init__(self, letter: str = "", **kw):
        self.letter = letter
        super().__init__(**kw)

    def to_jsonable(self) -> dict:
        d = super().to_jsonable()
        d["letter"] = self.letter
        return d

    @classmethod
    def from_dict(cls, d: dict):
        return cls(letter=d.get("letter", ""))

    def __repr__(self) -> str:
        return f"{type(self).__name__}({self.letter!r})" if self.letter else f"{type(self).__name__}()"

    def decomposition_function(self, c: R) -> Optional[Tuple[R, ...]]:
        if c.is_empty() or has_eps(c.dfa) or c.is_atom():
            return None
        last = [x for x in ALPH if restrict_last(c.dfa, x)[0]]
        if len(last) != 1 or (self.letter and last[0] != self.letter):
            return None
        return (R(right_quotient(c.dfa, last[0])), R(word_language(last[0])))

    def formal_step(self) -> str:
        return "split off the last letter"

    def forward_map(self, c: R, word: Word, children=None):
        return (Word(word[:-1]), Word(word[-1:]))

    def backward_map(self, c: R, objs, children=None):
        if children is None:
            children = self.decomposition_function(c)
        if str(objs[0]) not in words(children[0].dfa, len(objs[0])) or str(objs[1]) not in words(children[1].dfa, len(objs[1])):
            raise ValueError(f"parts {objs} do not belong to the factors of {c}")
        yield Word(str(objs[0]) + str(objs[1]))


def r_pack(name: str = "r") -> StrategyPack:
    """r: all four strategies in one expansion set (rRL: last-letter ones listed first); rL / rR:
    only the first-letter / last-letter pair; r2: first-letter strategies, then last-letter
    strategies (two expansion sets); r2R: the other order; rx..: restricted variants."""
    first = [ByFirst(), SplitFirst()]
    last = [ByLast(), SplitLast()]
    if name.startswith("rx"):
        # rx<o><l>[R] : complete first-letter strategies plus RESTRICTED last-letter strategies:
        # ByLast only for o in {e, n}, SplitLast only for last letter l in {a, b}; a trailing R lists
        # the last-letter strategies before the first-letter ones
        o, l = name[2], name[3]
        rl = [ByLast(only=o), SplitLast(letter=l)]
        exp_sets = [rl + first] if name.endswith("R") else [first + rl]
        return StrategyPack(initial_strats=[], inferral_strats=[], expansion_strats=exp_sets, ver_strats=[AtomStrategy()], name=name)
    exp = {
        "r": [first + last],
        "rRL": [last + first],
        "rL": [first],
        "rR": [last],
        "r2": [first, last],
        "r2R": [last, first],
    }[name]
    return StrategyPack(initial_strats=[], inferral_strats=[], expansion_strats=exp, ver_strats=[AtomStrategy()], name=name)


def r_strategies() -> List:
    return [ByFirst(), ByLast(), SplitFirst(), SplitLast()]


# ---------------------------------------------------------------------------
# start languages


@lru_cache(maxsize=None)
def languages(max_states: int) -> Tuple[Dfa, ...]:
    """Every non-empty language whose canonical DFA has at most max_states states, except
    the one-word languages of length <= 1 (atoms)."""
    from itertools import product

    out: Dict[Dfa, None] = {}
    for n in range(1, max_states + 1):
        targets = [-1] + list(range(n))
        for rows in product(product(targets, repeat=len(ALPH)), repeat=n):
            for acc in product((False, True), repeat=n):
                delta = {(q, x): t for q, row in enumerate(rows) for x, t in zip(ALPH, row) if t >= 0}
                d = canon(0, delta, {q for q in range(n) if acc[q]})
                if d[0] and len(d[0]) == n:
                    w = single_word(d)
                    if w is None or len(w) > 1:
                        out.setdefault(d, None)
    return tuple(out)


def self_test() -> None:
    sigma_star = canon(0, {(0, "a"): 0, (0, "b"): 0}, {0})
    assert sigma_star == (((0, 0),), (True,))
    a_star = canon(0, {(0, "a"): 0}, {0})
    assert words(a_star, 3) == ("aaa",)
    assert restrict_first(sigma_star, "a") == canon(0, {(0, "a"): 1, (1, "a"): 1, (1, "b"): 1}, {1})
    assert set(words(restrict_last(sigma_star, "b"), 2)) == {"ab", "bb"}
    assert left_quotient(restrict_first(sigma_star, "a"), "a") == sigma_star
    assert right_quotient(restrict_last(sigma_star, "b"), "b") == sigma_star
    assert single_word(word_language("ab")) == "ab" and single_word(a_star) is None
    # every strategy is a partition / a unique factorisation, by plain enumeration
    for d in languages(2):
        c = R(d)
        for s in r_strategies():
            ch = s.decomposition_function(c)
            if ch is None:
                continue
            for n in range(6):
                mine = sorted(words(d, n))
                if isinstance(s, _ByLetter):
                    got = sorted(w for x in ch for w in words(x.dfa, n))
                else:
                    got = sorted(u + v for k in range(n + 1) for u in words(ch[0].dfa, k) for v in words(ch[1].dfa, n - k))
                assert got == mine, (c, s, n, got, mine)
