"""Oracles on returned specifications (C01 counts, C02 structure), W-domain."""

from __future__ import annotations

import json
from collections import Counter
from typing import Any, Dict, Iterable, List, Optional, Sequence, Set, Tuple

from mc import domain_w as dw
from mc.oracles import lfp_terms


def domain_fns(c):
    """(plain enumeration of terms, exact emptiness) for the domain of class c."""
    from mc import domain_g as dg

    if isinstance(c, dg.G):
        return dg.brute_terms, dg.brute_empty
    from mc import domain_r as dr

    if isinstance(c, dr.R):
        return dr.brute_terms, dr.brute_empty
    return dw.brute_terms, dw.brute_empty


def spec_signature(spec) -> str:
    """A complete description of the specification (what from_dict rebuilds it from)."""
    d = spec.to_jsonable()
    rules = sorted(json.dumps(r, sort_keys=True) for r in d["rules"])
    return json.dumps([d["root"], rules], sort_keys=True)


def nz(counter) -> Dict[Tuple[int, ...], int]:
    return {k: v for k, v in counter.items() if v != 0}


def count_problems(spec, start: dw.W, N: int) -> List[str]:
    """C01 oracle: every term of every size up to N equals plain enumeration."""
    probs: List[str] = []
    if spec.root != start:
        probs.append(f"root of the specification is {spec.root!r}, start class {start!r}")
        return probs
    for n in range(N + 1):
        want = nz(domain_fns(start)[0](start, n))
        got = nz(spec.get_terms(n))
        if got != want:
            probs.append(f"size {n}: terms {got} but true enumeration {want}")
            break
        names = start.extra_parameters
        params = set(want)
        # a few parameter tuples that do not occur must count 0
        params.update((tuple(n + 1 for _ in names),) if names else ())
        for p in sorted(params):
            c = spec.count_objects_of_size(n, **dict(zip(names, p)))
            if c != want.get(p, 0):
                probs.append(f"count_objects_of_size({n}, {dict(zip(names, p))}) = {c}, true {want.get(p, 0)}")
                return probs
    return probs


# ---------------------------------------------------------------------------
# C02


def _empty(c) -> bool:
    return domain_fns(c)[1](c)


def unwrap(rule) -> List[Tuple[Any, List[str]]]:
    """Base rules (Rule built directly by a strategy, or VerificationRule) under
    the derived forms, with structural problems found on the way."""
    from comb_spec_searcher.strategies.rule import (
        EquivalencePathRule,
        EquivalenceRule,
        ReverseRule,
    )

    probs: List[str] = []
    out: List[Any] = []

    def rec(r):
        if isinstance(r, EquivalencePathRule):
            rs = list(r.rules)
            if not rs:
                probs.append("empty equivalence path")
                return
            if rs[0].comb_class != r.comb_class:
                probs.append("equivalence path does not start at its class")
            for a, b in zip(rs, rs[1:]):
                if len(a.children) != 1 or a.children[0] != b.comb_class:
                    probs.append(f"equivalence path broken between {a.comb_class!r} and {b.comb_class!r}")
            if tuple(r.children) != tuple(rs[-1].children):
                probs.append("equivalence path children differ from its last rule's")
            for x in rs:
                if len(x.children) != 1:
                    probs.append("rule with several children inside an equivalence path")
                rec(x)
        elif isinstance(r, EquivalenceRule):
            o = r.original_rule
            ne = [c for c in o.children if not _empty(c)]
            if o.comb_class != r.comb_class and not isinstance(o, ReverseRule):
                probs.append("equivalence rule of a rule of another class")
            if len(ne) != 1 or tuple(r.children) != (ne[0],):
                probs.append(f"equivalence rule of {o.comb_class!r} keeps {r.children} but non-empty children are {ne}")
            rec(o)
        elif isinstance(r, ReverseRule):
            o = r.original_rule
            i = r.idx
            if not 0 <= i < len(o.children):
                probs.append("reverse rule index out of range")
            else:
                if r.comb_class != o.children[i]:
                    probs.append("reverse rule parent is not the flipped child")
                want = (o.comb_class,) + tuple(c for j, c in enumerate(o.children) if j != i)
                if tuple(r.children) != want:
                    probs.append("reverse rule children")
            rec(o)
        else:
            out.append(r)

    rec(rule)
    return [(b, probs) for b in out] if out else [(None, probs)]


def independent_shifts(rule) -> Optional[Tuple[int, ...]]:
    """The reliance of a rule on its children derived from the domain's own minimum sizes
    (not from the library's shifts()): union 0; product: sum of the minimum sizes minus the
    child's own; reverse rule: derived from the forward rule; equivalence forms: 0."""
    from comb_spec_searcher import CartesianProductStrategy, DisjointUnionStrategy
    from comb_spec_searcher.strategies.rule import EquivalencePathRule, EquivalenceRule, ReverseRule, VerificationRule

    if isinstance(rule, VerificationRule):
        return ()
    if isinstance(rule, (EquivalencePathRule, EquivalenceRule)):
        return (0,) * len(rule.children)
    if isinstance(rule, ReverseRule):
        o = independent_shifts(rule.original_rule)
        if o is None:
            return None
        i = rule.idx
        return (-o[i],) + tuple(s - o[i] for j, s in enumerate(o) if j != i)
    strat = rule.strategy
    if isinstance(strat, CartesianProductStrategy):
        mins = [ch.minimum_size_of_object() for ch in rule.children]
        return tuple(sum(mins) - m for m in mins)
    if isinstance(strat, DisjointUnionStrategy):
        return (0,) * len(rule.children)
    return None


def allowed_strategies(pack, classes: Iterable[dw.W]) -> List[Any]:
    from comb_spec_searcher.strategies.rule import AbstractRule
    from comb_spec_searcher.strategies.strategy import AbstractStrategy, StrategyFactory

    res: List[Any] = []
    for s in pack:
        if isinstance(s, AbstractStrategy):
            res.append(s)
        elif isinstance(s, StrategyFactory):
            for c in classes:
                for x in s(c):
                    res.append(x.strategy if isinstance(x, AbstractRule) else x)
    return res


def structure_problems(spec, start: dw.W, pack, raw_rules: Optional[Sequence[Any]] = None) -> List[str]:
    """C02 oracle (a) closure / one rule per class, (b) genuineness, (c) productivity."""
    from comb_spec_searcher.strategies.rule import VerificationRule
    from comb_spec_searcher.strategies.strategy import EmptyStrategy

    probs: List[str] = []
    rd = spec.rules_dict
    if start not in rd:
        return [f"start class {start!r} has no rule"]
    # (a)
    for c, rule in rd.items():
        if rule.comb_class != c:
            probs.append(f"rule stored under {c!r} is a rule of {rule.comb_class!r}")
        for ch in rule.children:
            if ch in rd:
                continue
            if _empty(ch):
                continue
            probs.append(f"non-empty class {ch!r} on a right-hand side has no rule")
    reach: Set[dw.W] = set()
    todo = [start]
    while todo:
        c = todo.pop()
        if c in reach or c not in rd:
            continue
        reach.add(c)
        todo.extend(rd[c].children)
    for c in rd:
        if c not in reach:
            probs.append(f"rule for {c!r} is not reachable from the start class")
    if raw_rules is not None:
        by_class: Dict[dw.W, Any] = {}
        for r in raw_rules:
            o = by_class.get(r.comb_class)
            if o is not None and not (o == r and tuple(o.children) == tuple(r.children)):
                probs.append(f"two different rules handed over for {r.comb_class!r}")
            by_class[r.comb_class] = r
    # (b)
    for c, rule in rd.items():
        for base, ps in unwrap(rule):
            probs.extend(ps)
            if base is None:
                continue
            strat = base.strategy
            bc = base.comb_class
            if isinstance(strat, EmptyStrategy):
                if not _empty(bc):
                    probs.append(f"EmptyStrategy rule for the non-empty class {bc!r}")
                continue
            allowed = allowed_strategies(pack, (bc,) + tuple(base.children))
            if not any(type(a) is type(strat) and a == strat for a in allowed):
                probs.append(f"strategy {strat!r} of the rule for {bc!r} is not produced by the pack")
                continue
            if isinstance(base, VerificationRule):
                if not strat.verified(bc):
                    probs.append(f"verification rule for {bc!r} which is not verified by {strat!r}")
                if tuple(base.children) != ():
                    probs.append("verification rule with children")
            else:
                fresh = strat.decomposition_function(bc)
                if fresh is None or tuple(fresh) != tuple(base.children):
                    probs.append(f"re-applying {strat!r} to {bc!r} gives {fresh}, stored children {base.children}")
    # (c) productivity judged from (parent, children, shifts) only
    label: Dict[dw.W, int] = {}

    def lab(c):
        if c not in label:
            label[c] = len(label)
        return label[c]

    keys = []
    for c, rule in rd.items():
        sh = independent_shifts(rule)
        if sh is None:
            sh = tuple(rule.shifts())
        if len(sh) != len(rule.children):
            probs.append(f"shifts {sh} do not match the children of the rule for {c!r}")
            continue
        keys.append((lab(c), tuple(lab(ch) for ch in rule.children), sh))
    for c in list(label):
        if c not in rd and _empty(c):
            keys.append((lab(c), (), ()))
    f = lfp_terms(keys)
    for c, l in label.items():
        if c in rd and f.get(l, 0) is not None:
            probs.append(f"not productive: only {f.get(l, 0)} terms of {c!r} are computable from the rule set")
            break
    return probs
