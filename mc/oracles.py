"""Independent reference models ("kept boring").  None of them imports the library."""

from __future__ import annotations

from itertools import product
from typing import Dict, FrozenSet, Iterable, List, Optional, Sequence, Set, Tuple

INF = None  # infinity, as in the library's public `function` dict

Rule = Tuple[int, Tuple[int, ...], Tuple[int, ...]]  # parent, children, shifts


# ---------------------------------------------------------------------------
# least fixed point of the "terms computable" operator  (DESIGN 3.3)


def lfp_terms(rules: Iterable[Rule], cap_factor: int = 1) -> Dict[int, Optional[int]]:
    """f(p) = max(f(p), max_r min_i (f(c_i) + s_i)) on (N ∪ {∞})^V, empty min = ∞.

    Round-robin iteration on the finite lattice {0..K-1, ∞}; values reaching K
    become ∞ (gap lemma of DESIGN 3.3: every finite value of the least fixed point is < |V|·S).
    Returns only the non-zero values, ∞ as None (the library's convention)."""
    rules = list(rules)
    labels: Set[int] = set()
    S = 1
    for p, cs, ss in rules:
        labels.add(p)
        labels.update(cs)
        for s in ss:
            S = max(S, abs(s))
    K = ((len(labels) + 1) * S + 1) * cap_factor
    BIG = 10**9
    f: Dict[int, int] = {l: 0 for l in labels}
    changed = True
    while changed:
        changed = False
        for p, cs, ss in rules:
            fp = f[p]
            if fp >= BIG:
                continue
            v = BIG
            for c, s in zip(cs, ss):
                fc = f[c]
                if fc < BIG:
                    w = fc + s
                    if w < v:
                        v = w
            if v > fp:
                if v >= K:
                    v = BIG
                f[p] = v
                changed = True
    return {l: (None if v >= BIG else v) for l, v in f.items() if v != 0}


def lfp_terms_kleene(rules: Iterable[Rule], rounds: int) -> Dict[int, int]:
    """Plain Kleene iteration T^rounds(0) with no cap (finite values only); used
    to cross-validate lfp_terms in the oracle self test."""
    rules = list(rules)
    labels: Set[int] = set()
    for p, cs, _ in rules:
        labels.add(p)
        labels.update(cs)
    BIG = float("inf")
    f = {l: 0 for l in labels}
    for _ in range(rounds):
        g = dict(f)
        for p, cs, ss in rules:
            v = BIG
            for c, s in zip(cs, ss):
                v = min(v, f[c] + s)
            if v > g[p]:
                g[p] = v
        f = g
    return f


# ---------------------------------------------------------------------------
# rule dictionaries {label: {children tuples}}


def gfp_prune(rdict: Dict[int, Set[Tuple[int, ...]]]) -> Dict[int, Set[Tuple[int, ...]]]:
    """Greatest fixed point: keep a rule iff all its children keep a rule."""
    alive = {k for k, v in rdict.items() if v}
    while True:
        new_alive = {
            k for k in alive if any(all(c in alive for c in r) for r in rdict[k])
        }
        if new_alive == alive:
            break
        alive = new_alive
    return {
        k: {r for r in rdict[k] if all(c in alive for c in r)} for k in alive
    }


def iterative_lfp(
    rdict: Dict[int, Set[Tuple[int, ...]]], root: Optional[int]
) -> Dict[int, Set[Tuple[int, ...]]]:
    """Bottom-up derivability with recursion allowed to `root` only: the rules
    all of whose children are derivable (root counts as derivable from the start)."""
    derivable: Set[int] = set()
    if root is not None:
        derivable.add(root)
    has_rule: Set[int] = set()
    changed = True
    while changed:
        changed = False
        for k, rs in rdict.items():
            if k in has_rule:
                continue
            if any(all(c in derivable for c in r) for r in rs):
                has_rule.add(k)
                derivable.add(k)
                changed = True
    return {
        k: {r for r in rdict[k] if all(c in derivable for c in r)} for k in has_rule
    }


def scc_partition(labels: Iterable[int], edges: Iterable[Tuple[int, int]]) -> Dict[int, FrozenSet[int]]:
    """Strongly connected components by plain reachability (tiny graphs)."""
    labels = list(labels)
    adj: Dict[int, Set[int]] = {l: set() for l in labels}
    for a, b in edges:
        adj.setdefault(a, set()).add(b)
        adj.setdefault(b, set())
    reach: Dict[int, Set[int]] = {}
    for l in adj:
        seen = {l}
        todo = [l]
        while todo:
            x = todo.pop()
            for y in adj[x]:
                if y not in seen:
                    seen.add(y)
                    todo.append(y)
        reach[l] = seen
    return {l: frozenset(m for m in reach[l] if l in reach[m]) for l in adj}


# ---------------------------------------------------------------------------
# proof trees of a rule dictionary


def all_assignments(rdict: Dict[int, Set[Tuple[int, ...]]], root: int, limit: int = 200000):
    """All closed one-rule-per-label assignments reachable from root.

    Yields dicts label -> children.  A proof tree in the library's sense (each
    label expanded once, later occurrences are leaves) corresponds to exactly
    one such assignment and has size 1 + sum(len(children)) over it."""
    if root not in rdict:
        return
    count = 0

    def rec(assign: Dict[int, Tuple[int, ...]], todo: List[int]):
        nonlocal count
        while todo and todo[-1] in assign:
            todo = todo[:-1]
        if not todo:
            count += 1
            yield dict(assign)
            return
        l = todo[-1]
        rest = todo[:-1]
        for r in sorted(rdict.get(l, ())):
            if any(c not in rdict for c in r):
                continue
            assign[l] = r
            yield from rec(assign, rest + [c for c in r if c not in assign])
            del assign[l]
            if count >= limit:
                return

    yield from rec({}, [root])


def assignment_size(assign: Dict[int, Tuple[int, ...]]) -> int:
    return 1 + sum(len(r) for r in assign.values())


def min_tree_size(rdict: Dict[int, Set[Tuple[int, ...]]], root: int) -> Optional[int]:
    best = None
    for a in all_assignments(rdict, root):
        s = assignment_size(a)
        if best is None or s < best:
            best = s
    return best
